#!/bin/bash
# Builds /verif/.venv offline: an overlay of /venv (the repository's environment)
# plus z3-solver and crosshair-tool from the local wheelhouse.  Idempotent.
set -e
cd "$(dirname "$0")"
exec 9>.setup.lock
flock 9
if [ ! -x .venv/bin/python ] || ! .venv/bin/python -c "import z3, xgi, crosshair" >/dev/null 2>&1; then
  rm -rf .venv
  /venv/bin/python -m venv .venv
  SP=$(.venv/bin/python -c "import sysconfig; print(sysconfig.get_paths()['purelib'])")
  echo "import site; site.addsitedir('/venv/lib/python3.12/site-packages')" > "$SP/_venv_overlay.pth"
  PIP_NO_INDEX=1 .venv/bin/pip install -q --no-index --find-links /opt/veriftools/wheels z3-solver crosshair-tool >/dev/null
  .venv/bin/python -c "import z3, xgi, crosshair"
fi
