#!/usr/bin/env python3
"""Development aid (not a registered check): systematic single-line mutants of
xgi source files.  For each mutant that still passes the relevant part of the
repository's test suite, the relevant quick checks are run with the mutant
applied to /repo (and reverted).  The outcome (killed by tests / caught by which
check / survived) is appended to seeded/mutants.jsonl; survivors are reviewed by
hand: either the mutant is equivalent with respect to the properties, or a check
is strengthened.

usage: mutate.py <file under xgi/> [max_mutants]"""
import json
import os
import random
import re
import subprocess
import sys

REPO = os.environ.get("MUT_REPO", "/tmp/mutwt")  # a scratch worktree of /repo's HEAD, never /repo itself
ROOT = os.path.dirname(os.path.dirname(os.path.abspath(__file__)))

FILE_TESTS = {
    "xgi/core/hypergraph.py": "tests/core tests/convert tests/utils tests/generators",
    "xgi/core/dihypergraph.py": "tests/core tests/convert tests/stats",
    "xgi/core/simplicialcomplex.py": "tests/core tests/convert tests/generators tests/linalg",
    "xgi/core/views.py": "tests/core tests/stats tests/algorithms",
    "xgi/core/globalviews.py": "tests/core tests/algorithms",
    "xgi/utils/utilities.py": "tests/utils tests/core tests/generators",
    "xgi/utils/trie.py": "tests/algorithms tests/utils",
    "xgi/stats/__init__.py": "tests/stats tests/core",
    "xgi/stats/nodestats.py": "tests/stats",
    "xgi/stats/edgestats.py": "tests/stats",
    "xgi/stats/dinodestats.py": "tests/stats",
    "xgi/stats/diedgestats.py": "tests/stats",
    "xgi/algorithms/connected.py": "tests/algorithms tests/core",
    "xgi/algorithms/shortest_path.py": "tests/algorithms",
    "xgi/algorithms/clustering.py": "tests/algorithms tests/stats",
    "xgi/algorithms/simpliciality.py": "tests/algorithms tests/stats",
    "xgi/algorithms/properties.py": "tests/algorithms",
    "xgi/convert/bipartite_graph.py": "tests/convert",
    "xgi/convert/hif_dict.py": "tests/convert tests/readwrite",
    "xgi/convert/hypergraph_dict.py": "tests/convert tests/readwrite",
    "xgi/convert/higher_order_network.py": "tests/convert tests/core",
    "xgi/convert/line_graph.py": "tests/convert",
    "xgi/convert/encapsulation_dag.py": "tests/convert",
    "xgi/convert/incidence.py": "tests/convert",
    "xgi/convert/bipartite_edges.py": "tests/convert",
    "xgi/convert/pandas.py": "tests/convert",
    "xgi/linalg/hypergraph_matrix.py": "tests/linalg tests/algorithms",
    "xgi/linalg/laplacian_matrix.py": "tests/linalg",
    "xgi/linalg/hodge_matrix.py": "tests/linalg tests/dynamics",
    "xgi/generators/uniform.py": "tests/generators",
    "xgi/generators/random.py": "tests/generators",
    "xgi/generators/classic.py": "tests/generators tests/core",
    "xgi/generators/simplicial_complexes.py": "tests/generators",
    "xgi/generators/randomizing.py": "tests/generators",
}
FILE_CHECKS = {
    "xgi/core/hypergraph.py": ["C01", "C04", "C05", "C18", "C19", "C07"],
    "xgi/core/dihypergraph.py": ["C02", "C04", "C05", "C18", "C07"],
    "xgi/core/simplicialcomplex.py": ["C03", "C04", "C18", "C07"],
    "xgi/core/views.py": ["C06", "C01", "C19", "C09"],
    "xgi/core/globalviews.py": ["C19", "C18", "C08"],
    "xgi/utils/utilities.py": ["C04", "C19", "C16", "C01"],
    "xgi/utils/trie.py": ["C15", "C09"],
    "xgi/stats/__init__.py": ["C06"],
    "xgi/stats/nodestats.py": ["C06", "C09"],
    "xgi/stats/edgestats.py": ["C06"],
    "xgi/stats/dinodestats.py": ["C06"],
    "xgi/stats/diedgestats.py": ["C06"],
    "xgi/algorithms/connected.py": ["C14", "C19", "C09"],
    "xgi/algorithms/shortest_path.py": ["C14", "C09"],
    "xgi/algorithms/clustering.py": ["C14", "C09"],
    "xgi/algorithms/simpliciality.py": ["C15", "C09"],
    "xgi/algorithms/properties.py": ["C09", "C19"],
    "xgi/convert/bipartite_graph.py": ["C10", "C14", "C04"],
    "xgi/convert/hif_dict.py": ["C10", "C04"],
    "xgi/convert/hypergraph_dict.py": ["C10", "C04"],
    "xgi/convert/higher_order_network.py": ["C10", "C19", "C07", "C04"],
    "xgi/convert/line_graph.py": ["C14"],
    "xgi/convert/encapsulation_dag.py": ["C14"],
    "xgi/convert/incidence.py": ["C10", "C04"],
    "xgi/convert/bipartite_edges.py": ["C10", "C04"],
    "xgi/convert/pandas.py": ["C10", "C04"],
    "xgi/linalg/hypergraph_matrix.py": ["C12", "C09", "C14"],
    "xgi/linalg/laplacian_matrix.py": ["C12", "C09"],
    "xgi/linalg/hodge_matrix.py": ["C13"],
    "xgi/generators/uniform.py": ["C16", "C17"],
    "xgi/generators/random.py": ["C16", "C17"],
    "xgi/generators/classic.py": ["C16", "C19"],
    "xgi/generators/simplicial_complexes.py": ["C16", "C17"],
    "xgi/generators/randomizing.py": ["C17", "C08"],
}

OPS = [
    (r"<=", "<"), (r">=", ">"), (r"(?<![<>=!])<(?![=<])", "<="), (r"(?<![<>=!-])>(?![=>])", ">="),
    (r"==", "!="), (r"!=", "=="), (r"\bis not None\b", "is None"), (r"\bnot in\b", "in"),
    (r"\band\b", "or"), (r"\bor\b", "and"), (r"\+ 1\b", "+ 0"), (r"- 1\b", "- 0"),
    (r'"in"', '"out"'), (r'"out"', '"in"'), (r"\bTrue\b", "False"), (r"\bFalse\b", "True"),
    (r"\.add\(", ".discard("), (r"\.copy\(\)", ""), (r"deepcopy\(([^()]*)\)", r"\1"),
    (r"\bcontinue\b", "pass"), (r"\.union\(", ".intersection("), (r"\bif not\b", "if"),
]


def sh(cmd, cwd=None, timeout=3000):
    p = subprocess.run(cmd, shell=True, cwd=cwd, capture_output=True, text=True, timeout=timeout)
    return p.returncode, p.stdout + p.stderr


def candidates(path):
    src = open(os.path.join(REPO, path)).read().splitlines()
    import ast

    tree = ast.parse("\n".join(src))
    doc = set()
    for node in ast.walk(tree):
        if isinstance(node, (ast.FunctionDef, ast.ClassDef, ast.Module)):
            b = node.body
            if b and isinstance(b[0], ast.Expr) and isinstance(getattr(b[0], "value", None), ast.Constant) and isinstance(b[0].value.value, str):
                doc.update(range(b[0].lineno, b[0].end_lineno + 1))
    out = []
    for i, line in enumerate(src, 1):
        st = line.strip()
        if i in doc or not st or st.startswith("#") or st.startswith(("import ", "from ", "def ", "class ", '"""', "raise ", "warn(", "@")):
            continue
        code = line.split("#")[0]
        for pat, rep in OPS:
            for m in re.finditer(pat, code):
                new = code[: m.start()] + re.sub(pat, rep, code[m.start():], count=1)
                if new != code:
                    out.append((i, line, new + ("" if "#" not in line else "")))
        # statement deletion (simple statements only)
        if re.match(r"^\s+(self\.|del |[A-Za-z_][\w\.\[\]\"']* ?(=|\+=|-=) |[\w\.]+\()", line) and not st.endswith((":", "(", ",", "[", "{")) and st.count("(") == st.count(")"):
            out.append((i, line, re.match(r"^\s*", line).group(0) + "pass"))
    return src, out


def main():
    path = sys.argv[1]
    limit = int(sys.argv[2]) if len(sys.argv) > 2 else 10
    seed = int(sys.argv[3]) if len(sys.argv) > 3 else 0
    src, cands = candidates(path)
    random.Random(seed).shuffle(cands)
    done = 0
    logp = os.path.join(ROOT, "seeded", "mutants.jsonl")
    seen = set()
    if os.path.exists(logp):
        for l in open(logp):
            r = json.loads(l)
            seen.add((r["file"], r["line"], r["new"]))
    if not os.path.isdir(REPO):
        sh(f"git -C /repo worktree add --detach {REPO} HEAD")
    assert sh(f"git -C {REPO} status --porcelain")[1].strip() == "", "scratch worktree dirty"
    env = f"PYTHONPATH={REPO} VX_REPO={REPO} VX_JOBS=8 "
    for (i, old, new) in cands:
        if done >= limit:
            break
        if (path, i, new.strip()) in seen:
            continue
        mutated = list(src)
        mutated[i - 1] = new
        open(os.path.join(REPO, path), "w").write("\n".join(mutated) + "\n")
        rec = {"file": path, "line": i, "old": old.strip(), "new": new.strip()}
        try:
            rc, _ = sh(f"/venv/bin/python -m py_compile {path}", cwd=REPO)
            if rc != 0:
                continue
            rc, o = sh(f"/venv/bin/python -m pytest -q -x -p no:cacheprovider --timeout=300 -n 4 {FILE_TESTS[path]}", cwd=REPO, timeout=1200)
            if rc != 0:
                rec["result"] = "killed by tests"
            else:
                rec["result"] = "survived tests"
                rec["checks"] = {}
                for chk in FILE_CHECKS[path]:
                    rc, o = sh(env + f"./check {chk} --tier quick", cwd=ROOT, timeout=3000)
                    clauses = sorted({l.split("clause: ")[1].split(";")[0] for l in o.splitlines() if l.startswith("  clause: ")})[:3]
                    rec["checks"][chk] = {"rc": rc, "clauses": clauses}
                    if rc == 1:
                        break
                rec["caught_by"] = [c for c, v in rec["checks"].items() if v["rc"] == 1]
            done += 1
        finally:
            sh(f"git -C {REPO} checkout -- .")
        print(json.dumps(rec), flush=True)
        with open(logp, "a") as f:
            f.write(json.dumps(rec) + "\n")


if __name__ == "__main__":
    main()
