#!/usr/bin/env python3
"""Translator validation (DESIGN section 9): the repository's own core/utils/convert/
generators tests are run with the non-RNG stubs installed (scount for
itertools.count, float/int shadows in xgi.utils.utilities) on concrete values;
they must pass exactly as without the stubs."""
import os
import sys

ROOT = os.path.dirname(os.path.dirname(os.path.abspath(__file__)))
sys.path.insert(0, ROOT)
os.chdir("/repo")
import pytest  # noqa: E402

from vx import stubs  # noqa: E402

stubs.install_core()
rc = pytest.main(["-q", "-p", "no:cacheprovider", "tests/core", "tests/utils", "tests/convert", "tests/generators", "tests/stats"])
print("STUB-VALIDATION rc =", int(rc))
sys.exit(int(rc))
