#!/usr/bin/env python3
"""Regenerates MANIFEST.json from the table below (keeps it schema-valid)."""
import json, os, sys
ROOT = os.path.dirname(os.path.dirname(os.path.abspath(__file__)))

MC = "model_checking"
SYMX = ("symbolic execution of the real xgi code with z3-backed proxies (symx): shapes enumerated, "
        "labels/ids/counter/arguments are solver variables; every solver model replayed concretely")
CHECKS = {
 "C01": dict(level=MC, ref="5/C01",
   text="Inductive step decided by z3 for every Hypergraph shape within the bound, every mutator and in-place helper, with node labels, edge ids, id counter and all id arguments as unbounded solver integers: the two-way incidence relation, attribute records and a no-aliasing representation invariant hold after the call whether it returned or raised. Bounded model checking of one step from an arbitrary invariant state plus constructor base cases; histories follow by induction while states stay inside the size bound. Invalid and unusual arguments are part of the alphabet: None in every id position, unhashable members, and edge ids that are hashable but neither numbers, strings nor tuples (frozenset, bytes).",
   note="Trusted: CPython dict/set honouring __hash__/__eq__, z3 5.1 on linear integer arithmetic, the scount stub for itertools.count, the float()/int() shadows, SymRandom for random.sample; pre-states assume the invariant and Fresh (C04). Set iteration order follows builder insertion order.",
   technique="bounded symbolic execution of the real mutators (z3), inductive step over enumerated shapes with symbolic ids"),
 "C02": dict(level=MC, ref="5/C02",
   text="Same inductive step on DiHypergraph: every shape with each node-edge cell in {absent, tail, head, both} within the bound, every mutator, unbounded symbolic ids; tail/out and head/in agreement, no dangling ids, one attribute record each, no aliasing - after return or raise. Unhashable tail/head members and frozenset/bytes edge ids are part of the alphabet (state after the raise).",
   note="As C01; pre-states assume the directed invariant and Fresh.",
   technique="bounded symbolic execution of the real mutators (z3), inductive step over enumerated directed shapes"),
 "C03": dict(level=MC, ref="5/C03",
   text="Inductive step on SimplicialComplex from every downward-closed duplicate-free complex on <=3 (quick) / <=4 (thorough) vertices with symbolic labels, ids, members and max_order: closure, uniqueness, no empty simplex, two-way incidence, removal exactness, max_order respected; has_simplex exactness for a symbolic query on every shape. Unhashable members and frozenset/bytes simplex ids are part of the alphabet (state after the raise); one open known finding (bulk call with an invalid later entry).",
   note="As C01. A large simplex (4-5 new vertices) under every max_order is driven by a dedicated op because general bulk arguments are bounded at 3 members.",
   technique="bounded symbolic execution of the real SimplicialComplex mutators (z3), inductive step over enumerated complexes"),
 "C04": dict(level=MC, ref="5/C04",
   text="Fresh (counter above every integer id) decided as an inductive invariant for all three classes with the counter and every explicit id as unbounded solver integers (0, negative, non-increasing and colliding ids are in the model space), followed by one automatic addition that must collide with nothing; provenance base cases (constructors, from_* converters, in-memory parsers, generators, copy, pickle, relabelling, dual, <<, subhypergraph copy); explicit existing id refused with a warning and no change; update_uid_counter contract over all integers.",
   note="As C01; ids that travel as strings (standard dict, text parsers) are enumerated over 0..3; float(idx) assumed exact (|id| < 2**53).",
   technique="bounded symbolic execution (z3) of mutators + update_uid_counter with symbolic counter and ids; inductive invariant"),
 "C06": dict(level=MC, ref="5/C06",
   text="Views and stat objects are created and held, one mutator with symbolic arguments runs (Hypergraph and DiHypergraph alphabets, every small shape), then the held objects are compared with definitions computed from the post-state tables (degree/size/order, sums, directed in/out/total, head/tail); stat arguments, filterby in every mode with a symbolic threshold, filterby_attr with symbolic values and `missing`, neighbors with symbolic s, lookup, duplicates, isolates, singletons, empty, maximal against set-theoretic definitions; output formats agree and follow view order, the latter also under real hashing with labels forked exhaustively over a window.",
   note="As C01. Set-order effects are only visible in the windowed-label harness (C06.order); float-valued statistics are outside.",
   technique="bounded symbolic execution (z3) of views/stats with symbolic labels, thresholds, order/degree/s parameters and attribute values"),
 "C07": dict(level=MC, ref="5/C07",
   text="For all three classes and every small shape with symbolic labels, counter and attribute values (nested mutables at node, edge and network level): copy(), pickle round trip and same-class constructor give equal snapshots and leave the source unchanged; no mutable container is shared (structural containers only for the constructor route, as the property states nested independence for copy()); a nested in-place edit and any one mutator with symbolic arguments on either side are invisible on the other; both sides keep assigning fresh ids (C04 assertions). The equality harness also runs with a string and with a tuple as first node label / first edge id.",
   note="As C01; the symbolic run pickles scount, itertools.count itself is pickled in the concrete replays.",
   technique="bounded symbolic execution (z3): derive, edit one side symbolically, compare snapshots"),
 "C18": dict(level=MC, ref="5/C18",
   text="Structural mutators are discovered by concrete probing of every public callable of the three classes and the in-place library functions; then on every small shape, after freeze() and on subhypergraph() results, each discovered mutator (dedicated symbolic-argument ops plus a generic recipe call, keyword and positional) leaves the structural snapshot unchanged on every path, and whenever the identical call with identical symbolic arguments changes an equal unfrozen twin it raises the library's error; is_frozen stays True; copy() is unfrozen, equal and editable without touching the original. The mutator alphabet is the union of what probing finds on the current tree and the pinned public API, so a change that hides a signature cannot shrink it. subhypergraph is also called with explicit selections (nodes [] or one solver-chosen label, edges None or one solver-chosen id, keep_isolates solver-chosen) before the mutators run on its result.",
   note="As C01; library error = XGIError or IDNotFound; a public callable without recipe is listed in the evidence.",
   technique="bounded symbolic execution (z3) with twin runs (same symbolic arguments on frozen net and unfrozen twin)"),
 "C19": dict(level=MC, ref="5/C19",
   text="Per shape with symbolic labels and attributes: cleanup (all 32 flag sets: exactly the requested guarantees, only deletions/merges, nothing dropped that no guarantee excludes, input untouched), integer relabelling (isomorphism, 0..n-1/0..m-1, old labels recorded, attributes kept; three classes), subhypergraph with one symbolic bit per node and per edge plus absent ids, dual and dual-of-dual, << on pairs of shapes with overlapping labels, complement, cut_to_order/k_skeleton with symbolic order, from_max_simplices, largest_connected_hypergraph - each against a brute-force set-theoretic construction.",
   note="As C01. cleanup(connected=True) exercised on networks with at least one node.",
   technique="bounded symbolic execution (z3) against brute-force oracles over enumerated shapes with symbolic labels/selections"),
 "C05": dict(level=MC, ref="5/C05",
   text="One-step differential between the real Hypergraph/DiHypergraph mutators and an executable transcription of their docstrings (vx/refmodel.py): same symbolic pre-state (labels, counter, attribute values), same op, same symbolic arguments through a twin run; on every path the full observable snapshot (node order, edge order, members or tail/head, three attribute levels, next automatic id), the outcome kind (returns / library error) and the warning behaviour agree. double_edge_swap and random_edge_shuffle (all redistributions through the RNG stub) keep every degree, size, id and attribute and exchange exactly what they document.",
   note="Trusted: the ~400-line reference model; ambiguous documentation points follow the implementation and are listed in the evidence assumptions. SimplicialComplex semantics are decided under C03.",
   technique="bounded symbolic execution (z3), differential against an executable reference model with shared symbolic arguments"),
 "C09": dict(level=MC, ref="5/C09",
   text="For every shape within the bound, node labels and edge ids are solver integers in a window (pairwise distinct within their kind), inserted in several orders; 36 measures (degree/size stats, neighbour average, three clustering coefficients, components, path lengths, densities, exact assortativities, simpliciality measures, maximal/duplicate/isolate/singleton sets, Katz centrality, incidence/adjacency/Laplacian/degree/clique-motif/intersection matrices through their index maps) are compared with the same measure on the canonical labelling; every comparison, sort or list index the code makes on labels is decided by z3 for all labelings in the window at once.",
   note="Labels restricted to [-4,6] so that list[id] is reachable by exhaustive forking; set iteration follows insertion order during exploration (real hashing only in the concrete replay); floats compared with tolerance 1e-9; string labels outside.",
   technique="bounded symbolic execution (z3) with windowed symbolic labels against a canonical-label reference run"),
 "C10": dict(level=MC, ref="5/C10",
   text="Per shape and class with symbolic labels and attribute values: round trips through hyperedge list/dict, bipartite edge list (directed too), labelled incidence matrix, bipartite graph with index maps (directed too), two-column dataframe, the standard dict (ids rendered and cast back) and the HIF dict (three classes) preserve the incidence set, labels/order and - for the two dicts - isolated nodes, empty edges, all attributes and the class; class-to-class constructors keep nodes, attributes at all three levels and each edge's member set (union of tail and head; plus all faces for a SimplicialComplex target); from_bipartite_graph is decided for every vertex insertion order and every orientation of every add_edge call of the input graph.",
   note="As C01; rendered ids are modelled by SymStr (decimal rendering injective); networkx/pandas/numpy see proxy labels as opaque hashables.",
   technique="bounded symbolic execution (z3) of converter pairs with symbolic labels; bipartite-graph insertion orders enumerated"),
 "C13": dict(level=MC, ref="5/C13",
   text="The real boundary_matrix and hodge_laplacian run on every downward-closed complex on <=4 vertices (thorough: plus the full 4-simplex) with one solver bit per simplex orientation, unbounded symbolic vertex labels (every label order through the reference sort) and symbolic simplex ids; one z3 query per matrix entry decides column support = faces, entries +-1, k+1 entries per column, B_{k-1}B_k = 0, and Laplacian = B_k^T B_k + B_{k+1} B_{k+1}^T and symmetric. A second harness assigns labels from a pool with strings, negative and multi-digit numbers (every injective assignment). C13.spectrum: on the integer matrices returned under real numpy, z3 decides over the reals that every Hodge Laplacian is positive semidefinite and that the kernel of L_0 is exactly the span of the connected-component indicators (orientation bits forked exhaustively up to 6 simplices).",
   note="numpy inside hodge_matrix is replaced by a dict-backed integer matrix during exploration; concrete replays use the real numpy. PSD and the kernel of L_0 are decided separately by C13.spectrum on the concrete matrices (z3 over the reals).",
   technique="bounded symbolic execution (z3) of boundary_matrix with symbolic orientation bits, labels and ids; per-entry queries"),
 "C16": dict(level=MC, ref="5/C16",
   text="The RNG is replaced by its contract (geometric(): any integer >= 1; random(): any real in [0,1); sample/choice: any selection), so the skip-sampling loops of fast_random_hypergraph, uniform_erdos_renyi_hypergraph, uniform_HSBM, chung_lu/dcsbm and the per-candidate draws of random_hypergraph, random_simplicial_complex and the flag complexes are explored for every subset of candidates (paths), with the structural promises asserted on every path (exact node set, edges inside nodes, exact/allowed sizes, no repeats where forbidden, p=0 -> none, p=1 -> all without error, configuration model within prescribed degrees, closure, exactly the cliques). The three index decoders are decided with two symbolic indices (range + injectivity, hence bijection by counting). watts_strogatz_hypergraph (rewiring, n=4, d=2): every rewired edge keeps exactly d nodes. Module-level integer constants >= 1000 of the generator modules (size thresholds) are solver integers, so code behind `n > THRESHOLD` is reachable on small inputs (none on the unchanged tree).",
   note="Parameter grids bounded to <=10 candidate indices per order; probabilities in {0, 0.5, 1}; deterministic generators (complete_hypergraph, flag complexes without probabilities) have no solver variable and are exhaustive concrete grids; distributional correctness is outside.",
   technique="bounded symbolic execution (z3) of generators under a nondeterministic RNG stub; symbolic-index decoders"),
 "C17": dict(level="other", ref="5/C17",
   text="Seed determinism decided symbolically for the pure-Python consumers of random / numpy.random / geometric (22 seeded functions): each is executed twice in one path under stubs that name every draw R(stream, position); draws made after the function seeded a generator are shared solver variables, ambient draws are fresh ones, the seed is a solver integer (falsy seeds included) and z3 searches for draw values that make the two outputs differ. For functions that delegate to networkx only the forwarding of the seed is decided. Mutable arguments are also passed as the same object to both calls (an argument modified by the first call is a different argument in the second); module-level integer constants >= 1000 of the generator/layout modules (size thresholds between two implementations) are solver integers in [0, value].",
   note="Reduced reach, stated: one small parameter tuple per function; networkx generators/layouts are stubbed (seed forwarding only); spectral_clustering (ARPACK start vector, float k-means) cannot be entered by the stubs and is outside the claim.",
   technique="bounded symbolic execution (z3) with stream-tagged uninterpreted RNG draws, two calls per path"),
 "C15": dict(level=MC, ref="5/C15",
   text="On every hypergraph shape without repeated or empty edges within the bound, the three simpliciality measures (raw and normalised edit distance, mean face edit distance, simplicial fraction and the two derived scores) are compared with exhaustive subset enumeration; labels are unbounded orderable solver integers (each label order the Trie's sort can see is a path), members are listed in several orders, min_size in 1..4 and exclude_min_size are solver-chosen; scores in [0,1] or NaN and equal to 1 on downward-closed shapes. A second harness forks labels exhaustively over [-3,3] under real hashing (also with equal labels of different numeric types); a third measures, replaces one edge on the same object (same node and edge counts) and measures again.",
   note="Oracle = brute-force enumeration on the concrete incidence shape; floats compared with tolerance 1e-9.",
   technique="bounded symbolic execution (z3) of the simpliciality code with symbolic labels against an exhaustive-enumeration oracle"),
 "C11": dict(level="other", ref="5/C11 (section 10.7)",
   text="The real writers and readers of xgi.readwrite (write_hif/read_hif and the HIF collections, write_json/read_json and its collections, write/read_edgelist, write/read_bipartite_edgelist incl. dual=True) run on every small shape of the three classes with node labels, edge ids and attribute values as unbounded solver integers; the network read back must equal the one written (class, nodes incl. isolated, edges incl. empty, members or tail/head, three attribute levels for the JSON formats; incidences, labels under the documented cast, edge order, comment lines ignored for the text formats, seven writer/reader delimiter pairs), a path is overwritten not appended to, the input is untouched, and an automatic edge added to a network read from a file replaces nothing. During exploration the file boundary is a contract stub (in-memory open(), JSON data model, rendered labels as opaque delimiter-free tokens); every solver model is replayed with real files in a temporary directory and the real json module. The incidence-matrix text format (1 x m and n x 1 included) has no solver variable and runs as an exhaustive concrete grid, labelled as such.",
   note="Reduced reach, stated: the solver quantifies labels, ids and attribute values; the bytes on disk are modelled by contract during exploration (real only in replays). String-level behaviour of split/strip/find on labels containing delimiter, comment or whitespace characters is excluded by the property itself; JSON representability of exotic value types and numpy float formatting are outside.",
   technique="bounded symbolic execution (z3) of the real file writers/readers with the file boundary as a contract stub; concrete replay through real files"),
 "C12": dict(level="other", ref="5/C12",
   text="For every hypergraph shape within the bound (isolated nodes, empty/duplicate/singleton edges included) incidence, adjacency (weighted/thresholded by s), degree vector, intersection profile, clique-motif matrix, adjacency tensor, order-d, multi-order and normalised Laplacians are compared entrywise through their returned index maps with brute-force definitions; symmetry, zero diagonal, zero row sums; sparse equals dense for every argument combination; degenerate cases (no edges, none of the requested order). Node labels and edge ids are unbounded solver integers, order/s/flags are solver-chosen. Every shape is also reached through a history on one object (complementary incidence, every matrix function called once, then morphed through the public API with unchanged node and edge counts). C12.psd: positive semidefiniteness of the order-d, multi-order (non-negative weights) and normalised Laplacians is decided by z3 (nlsat) over the reals on the matrix the library returned - the vector x is the solver variable; one open known finding (weighted normalised Laplacian).",
   note="Reduced reach, stated: the numeric kernels are scipy/numpy C code, so the solver quantifies only the labelling and the small integer/boolean parameters; shapes are enumerated. Positive semidefiniteness is not decided (follows from symmetry and the B^T B form).",
   technique="bounded symbolic execution (z3) over labels and parameters with enumerated shapes; brute-force matrix oracles"),
 "C14": dict(level="other", ref="5/C14",
   text="Per shape (disconnected, isolated nodes, singletons, multi-edges, nested edges) with symbolic labels: connected components, is_connected, component count, largest component and a symbolic node's component against networkx on the node-edge bipartite graph; single-source shortest path lengths from a symbolic source against BFS in the clique expansion (inf exactly across components, symmetry); clustering coefficient against nx.clustering of the projection; to_graph, s-line graph with its three weight modes (s solver-chosen), bipartite graph and encapsulation DAG against definitions evaluated by the harness. Small shapes are also reached through a history on one object after every algorithm ran once on the complementary incidence. C14.hub: a fixed ten-edge network under real hashing with pooled labels (edge ids mixing integers with a string, a tuple, a float; two arrangements in which one pair of edge ids iterates in opposite orders in two membership sets) through the same oracles.",
   note="Reduced reach, stated: shapes enumerated; the solver quantifies labels, source node, s, weight mode, subset_types. networkx is the independent oracle. Exact link set of the 'empirical' encapsulation DAG is outside.",
   technique="bounded symbolic execution (z3) of xgi's graph algorithms on symbolic labels against networkx on harness-built expansions"),
 "C08": dict(level="other", ref="5/C08",
   text="Every public callable whose first parameter is a network (enumerated by introspection on each run, ambiguous names settled by a probe call), the three constructors and 27 read-only view/stat/network methods are called on every shape of the bound in two modes - symbolic unbounded labels, and labels forked over a window under real hashing - with recipe arguments (node/edge selections, order, flags solver-chosen); the deep snapshot of the argument network (order, members, memberships, three attribute levels, next automatic id, frozen flag) must be identical afterwards on every path, and again after the harness edits the structural containers and returned networks it was handed.",
   note="Reduced reach, stated: for branch-free callables this is one path per shape; callables that push labels into C code only run in the windowed concrete mode (the symbolic attempt is reported per callable in the evidence). Attribute records are live by design and are not edited; simulate_* and download functions are skipped by name.",
   technique="bounded symbolic execution (z3) + windowed label forking: snapshot-before = snapshot-after over an introspected API surface"),
 "C20": dict(level="other", ref="10.9",
   text="The label-quantified part of the property, decided with node labels and edge ids as unbounded solver integers (plus a string-label mode) on every small Hypergraph / SimplicialComplex shape (isolated nodes, singleton, duplicate and nested edges): each of the nine layout functions returns exactly one finite 2-D position per node (the bipartite layout also one per edge) and for nothing else; edge_positions_from_barycenters places each edge at the mean of its members' positions; xgi.draw - run for real on the Agg backend with harness-supplied positions in convex position and a solver-chosen max_order - returns one marker per node at its position in node order, one line per two-node edge joining its two members, and one polygon per larger edge up to max_order whose vertex set is exactly its members' positions (SimplicialComplex: maximal simplices of >= 3 nodes as polygons, two-node simplices as lines); any exception on a drawable network is a violation. C20.history: draw without positions, edit the same object (node set changes with and without a change of the node count), draw again: the second drawing succeeds and shows the current nodes and two-node edges.",
   note="Reduced reach, stated: coordinates are floats from numpy/networkx and artists are built by matplotlib, so geometry, finiteness and rendering are observed per path, not solver-decided; the solver quantifies labels, ids and max_order - every place where layout or drawing code looks a label up, compares it or uses it as a position. draw_bipartite, draw_multilayer, directed drawings, hull polygons, colours and sizes are outside.",
   technique="bounded symbolic execution (z3) of the real layout/draw code over symbolic labels with enumerated shapes; artists read back from matplotlib collections"),
}
NOT_APPLICABLE = {
}
PENDING = "check not built yet in this revision (planned per DESIGN.md section 5)"

def main():
    props = [json.loads(l)["id"] for l in open(os.path.join(ROOT, "properties.jsonl"))]
    checks = []
    for pid in props:
        c = CHECKS.get(pid)
        if not c:
            continue
        checks.append({
            "property_id": pid,
            "quick_cmd": f"./check {pid} --tier quick",
            "thorough_cmd": f"./check {pid} --tier thorough",
            "evidence_file": f"/verif/evidence/{pid}.json",
            "replay_cmd_template": "./check --replay {path}",
            "engine": c.get("engine", "symx"),
            "level_claimed": {"category": c["level"], "text": c["text"], "design_ref": "DESIGN.md section " + c["ref"]},
            "level_note": c["note"],
            "technique": c["technique"],
        })
    na = []
    for pid in props:
        if pid in CHECKS:
            continue
        na.append({"property_id": pid, "reason": NOT_APPLICABLE.get(pid, PENDING)})
    m = {
        "version": 1,
        "setup_cmd": "./setup.sh",
        "hooks": {
            "guard": "XGI_VERIF",
            "enable": "none needed: all instrumentation is module-global injection inside the checker process; /repo carries no hook code",
            "baseline_off_cmd": "cd /repo && /venv/bin/python -m pytest -ra -q -p no:cacheprovider --timeout=900 --continue-on-collection-errors",
            "source_commits": [],
            "add_only": True,
        },
        "engines": [
            {"name": "symx", "path": "/verif/vx/symx.py", "serves_properties": sorted(CHECKS), "kind_free_text": SYMX},
        ],
        "checks": checks,
        "not_applicable": na,
        "notes": "Exit codes: 0 held (KNOWN-FINDING lines possible), 1 VIOLATION (replay-confirmed, not in known_findings.json), 2 inconclusive/engine error. Known findings: /verif/known_findings.json.",
    }
    json.dump(m, open(os.path.join(ROOT, "MANIFEST.json"), "w"), indent=1)
    try:
        import jsonschema
        jsonschema.validate(m, json.load(open("/root/.vp/MANIFEST.schema.json")))
        print("MANIFEST.json valid;", len(checks), "checks,", len(na), "not claimed")
    except ImportError:
        print("written (jsonschema not available to validate)")

if __name__ == "__main__":
    main()
