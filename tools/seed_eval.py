#!/usr/bin/env python3
"""Evaluates seeded changes: for each directory under SRC (patch.diff, demo.py,
notes.md) - applies the patch in a scratch worktree of /repo's HEAD, runs the
demo with and without it and the repository's test suite with it, then applies
it to /repo, runs the named checks, and reverts.  Writes seeded/<id>/ when the
change is confirmed (still applies, tests pass, demo distinguishes)."""
import json
import os
import shutil
import subprocess
import sys
import xml.etree.ElementTree as ET

SRC = "/tmp/seed/out"
ROOT = os.path.dirname(os.path.dirname(os.path.abspath(__file__)))
WT = f"/tmp/seedwt_eval_{os.getpid()}"
EXTRA = {"C11b": ["C10"], "C03f": ["C04"], "C07f": ["C04"], "C18e": ["C19"], "C05g": ["C01"], "C09g": ["C15"], "C02f": ["C04"], "C06h": ["C01"], "C05e": ["C03"], "C01e": ["C04"], "C19f": [], "C04b": ["C01"], "C09b": ["C04"], "C03b": ["C04"], "C10b": ["C03", "C04"], "C15b": ["C09"], "C09a": ["C15"], "C04a": ["C07"], "C07a": ["C04"]}


def sh(cmd, cwd=None, timeout=3000):
    p = subprocess.run(cmd, shell=True, cwd=cwd, capture_output=True, text=True, timeout=timeout)
    return p.returncode, p.stdout + p.stderr


def tests_ok(wt):
    base = json.load(open("/root/.vp/BASELINE.json"))
    stable = set(base["stable_pass"])
    junit = f"/tmp/seedwt_junit_{os.getpid()}.xml"
    sh(f"/venv/bin/python -m pytest -ra -q -p no:cacheprovider --timeout=900 --continue-on-collection-errors --junitxml={junit} -n 6", cwd=wt)
    passed = set()
    for tc in ET.parse(junit).iter("testcase"):
        if not any(c.tag in ("failure", "error", "skipped") for c in tc):
            passed.add(f"{tc.get('classname')}::{tc.get('name')}")
    missing = sorted(stable - passed)
    flaky_ok = {"tests.drawing.test_draw::test_issue_515", "xgi.drawing.draw::xgi.drawing.draw.draw"}  # xdist-order dependent on the pristine tree as well
    return [m for m in missing if m not in flaky_ok]


def main(only=None):
    out = {}
    res_path = os.path.join(ROOT, "seeded", "results.json")
    if os.path.exists(res_path):
        out = json.load(open(res_path))
    for sid in sorted(os.listdir(SRC)):
        d = os.path.join(SRC, sid)
        if not os.path.isdir(d) or not os.path.exists(os.path.join(d, "patch.diff")):
            continue
        if only and sid not in only:
            continue
        prop = sid[:3]
        r = {"property": prop}
        prev = out.get(sid)
        fast = os.environ.get("SEED_FAST") and prev and prev.get("confirmed")
        if fast:
            # confirmed in an earlier pass on this tree (patch applies, demo distinguishes,
            # test suite passes): only the checks are re-run
            r = {k: prev[k] for k in ("property", "demo_without", "applies", "demo_with", "demo_tail", "tests_missing", "confirmed") if k in prev}
        sh(f"git -C /repo worktree remove --force {WT}")
        shutil.rmtree(WT, ignore_errors=True)
        if not fast:
          sh(f"git -C /repo worktree add --detach {WT} HEAD")
          shutil.copy(os.path.join(d, "demo.py"), os.path.join(WT, "_demo.py"))
          rc0, o0 = sh("/venv/bin/python _demo.py", cwd=WT, timeout=600)
          r["demo_without"] = rc0
          rca, oa = sh(f"git apply {d}/patch.diff", cwd=WT)
          r["applies"] = rca == 0
          if rca == 0:
              rc1, o1 = sh("/venv/bin/python _demo.py", cwd=WT, timeout=600)
              r["demo_with"] = rc1
              r["demo_tail"] = o1.strip().splitlines()[-1][:300] if o1.strip() else ""
              os.remove(os.path.join(WT, "_demo.py"))
              r["tests_missing"] = tests_ok(WT)
          sh(f"git -C /repo worktree remove --force {WT}")
          shutil.rmtree(WT, ignore_errors=True)
        if not fast:
          r["confirmed"] = bool(r.get("applies") and r["demo_without"] == 0 and r.get("demo_with", 0) != 0 and not r.get("tests_missing"))
        r["checks"] = {}
        if r.get("applies"):
            # the checks run against a scratch worktree with the patch applied (PYTHONPATH/VX_REPO), never against /repo
            CW = f"/tmp/seedwt_chk_{os.getpid()}"
            sh(f"git -C /repo worktree remove --force {CW}")
            shutil.rmtree(CW, ignore_errors=True)
            sh(f"git -C /repo worktree add --detach {CW} HEAD")
            sh(f"git apply {d}/patch.diff", cwd=CW)
            try:
                for chk in [prop] + EXTRA.get(sid, []):
                    rc, o = sh(f"PYTHONPATH={CW} VX_REPO={CW} ./check {chk} --tier quick", cwd=ROOT, timeout=3000)
                    clauses = sorted({l.split("clause: ")[1].split(";")[0] for l in o.splitlines() if l.startswith("  clause: ")})
                    r["checks"][chk] = {"rc": rc, "clauses": clauses[:4]}
            finally:
                sh(f"git -C /repo worktree remove --force {CW}")
                shutil.rmtree(CW, ignore_errors=True)
        print(sid, json.dumps(r)[:600], flush=True)
        os.makedirs(os.path.join(ROOT, "seeded"), exist_ok=True)
        import fcntl
        with open(res_path + ".lock", "w") as lk:  # several evaluators may run side by side
            fcntl.flock(lk, fcntl.LOCK_EX)
            out = json.load(open(res_path)) if os.path.exists(res_path) else {}
            out[sid] = r
            json.dump(out, open(res_path, "w"), indent=1)
        if r["confirmed"]:
            dst = os.path.join(ROOT, "seeded", sid)
            os.makedirs(dst, exist_ok=True)
            shutil.copy(os.path.join(d, "patch.diff"), dst)
            shutil.copy(os.path.join(d, "demo.py"), dst)
            notes = open(os.path.join(d, "notes.md")).read() if os.path.exists(os.path.join(d, "notes.md")) else ""
            open(os.path.join(dst, "notes.md"), "w").write(notes)
            meta = {
                "id": sid, "breaks_property": prop,
                "needs_to_manifest": (notes.split("\n\n")[0][:600] if notes else ""),
                "what_was_run": {
                    "repo_head": sh("git -C /repo rev-parse --short HEAD")[1].strip(),
                    "demo": {"without_patch_rc": r["demo_without"], "with_patch_rc": r["demo_with"], "last_line": r.get("demo_tail")},
                    "test_suite": "baseline command with -n 6 in a scratch worktree: every stable_pass test of BASELINE.json passes with the patch" if not r["tests_missing"] else r["tests_missing"],
                    "checks_quick": r["checks"],
                },
                "detected_by": [c for c, v in r["checks"].items() if v["rc"] == 1],
            }
            json.dump(meta, open(os.path.join(dst, "meta.json"), "w"), indent=1)


if __name__ == "__main__":
    main(sys.argv[1:] or None)
