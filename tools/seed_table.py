#!/usr/bin/env python3
"""Prints the markdown table of one round of seeded changes from seeded/results.json."""
import json, os, sys
ROOT = os.path.dirname(os.path.dirname(os.path.abspath(__file__)))
DESC = {
 "C01g": "dict-format add_edges_from stores a caller's set without copying (needs one set object under two ids / in two networks, then an edit)",
 "C01h": "merge_duplicate_edges writes the merged edges into the tables directly (needs rename='tuple' and an existing edge whose id is that tuple)",
 "C02e": "DiHypergraph dict-format add_edges_from stores tail/head sets without copying (needs one set object shared by two entries, then an edit)",
 "C02f": "update_uid_counter tests isinstance(idx, numbers.Integral) (needs an integral float id, then automatic ids reaching it)",
 "C03e": "add_simplex checks None inside the node loop (state after the raise: empty simplex left behind)",
 "C03f": "update_uid_counter tests numbers.Integral (needs a simplex id such as 3.0 and later automatic ids)",
 "C04e": "same numbers.Integral cleanup (needs float edge ids, e.g. from a float64 dataframe column)",
 "C04f": "pickling rebuilds the counter from the last-inserted id only (needs last-inserted id not the largest)",
 "C05g": "clear_edges gives every node one shared membership set (needs later additions)",
 "C05h": "double_edge_swap edits in place before it knows the swap is valid (needs a swap rejected because n_id2 is not in e_id2)",
 "C06g": "aspandas built from the raw stat dict (needs set order != insertion order)",
 "C06h": "clear_edges rebinds _node (needs a view held or used after clear_edges)",
 "C07e": "DiHypergraph(DH) fills the tables directly and shallow-copies the {in, out} records (needs a later edit of either network)",
 "C07f": "pickle no longer stores the counter; rebuilt from isinstance(e, int) ids (needs numpy-int / integral-float ids)",
 "C08g": "node_swap(order=k) edits the input's own member sets (needs non-zero order)",
 "C08h": "to_hif_dict casts set-valued attribute values to lists in place (needs a set-valued node/edge attribute)",
 "C09g": "Trie sorts by hash (needs labels with colliding hashes, -1/-2, listed in different orders)",
 "C09h": "katz_centrality maps values back through a set when isolated nodes exist (needs an isolated node and set order != insertion order)",
 "C10g": "to_bipartite_graph merged loops lose the tail arc of a node in both tail and head",
 "C10h": "to_bipartite_pandas_dataframe builds the node column with numpy (needs node labels of mixed types)",
 "C12g": "multiorder_laplacian reads degrees off the already rescaled Laplacian (needs rescale_per_node=True and an order >= 2)",
 "C12h": "adjacency_tensor accumulates instead of setting (needs duplicate edges)",
 "C13e": "boundary sign adds the two orientation values first (needs numpy.bool_ orientations, both flipped)",
 "C13f": "_subfaces sorts its argument with a str fallback (needs mixed int/str labels such as 2, 10, 'a')",
 "C14g": "to_graph relabels from the adjacency index map (needs an edgeless hypergraph with labels other than 0..n-1)",
 "C14h": "largest_connected_component stops early at num_nodes // 2 (needs an odd node count and a (n-1)/2 component listed first)",
 "C15e": "Trie orders letters by (type name, value) (needs one node named by equal objects of different numeric types)",
 "C15f": "edge trie memoised per object, validated by (min_size, num_nodes, num_edges) (needs measure, same-count edit, measure)",
 "C16g": "lru_cache on _cliques_to_fill (needs two calls with the graph edited in between)",
 "C16h": "_check_input_args sorts order with np.unique but not ps (needs order= given in non-increasing sequence)",
 "C17e": "random_simplicial_complex skip-samples with the global-random geometric() above 10**6 candidates (needs N >= 183 for triangles)",
 "C17f": "uniform_hypergraph_configuration_model seeds after repairing a non-realisable sequence (needs sum(k) % m != 0)",
 "C18e": "in-place convert_labels_to_integers clears the internal tables directly (needs a frozen network and in_place=True; the error is still raised)",
 "C18f": "deprecated SimplicialComplex edge aliases bound to the function objects bypass the instance-level freeze guard",
 "C19g": "in-place largest_connected_hypergraph removes only strictly smaller components (needs a tie for the largest)",
 "C11a": "read_hif_collection loads dataset files through an lru_cache keyed on the path (needs read, rewrite the same collection, read)",
 "C11b": "to_hypergraph_dict drops falsy network attributes (needs a network attribute that is 0, False, '' or [])",
 "C11c": "parse_edgelist batches the parsed edges through add_edges_from (needs a nodetype returning tuples and a first edge with two members)",
 "C11d": "parse_bipartite_edgelist applies nodetype/edgetype by column, then picks roles (needs dual=True and nodetype != edgetype)",
 "C11e": "read_incidence_matrix reshapes a 1-D load to one row (needs exactly one edge and at least two nodes)",
 "C11f": "a _cast helper casts column 0 with nodetype and column 1 with edgetype before the dual swap (needs dual=True and different casts)",
 "C20a": "barycentre layouts keep the positions of the vertices whose bipartite attribute is 'node' (needs labels that equal small ints without being int, e.g. numpy.int64(0): a phantom vertex then overwrites the attribute)",
 "C20b": "edge_positions_from_barycenters averages (*tail, *head) for a DiHypergraph (needs a node in both tail and head)",
 "C20c": "_CCW_sort drops a point that lies exactly on the centroid (needs a member positioned on the mean of its edge)",
 "C20d": "draw_hyperedges builds a numpy object array from member lists (needs tuple labels of equal length and equal-sized edges)",
 "C19h": "relabelling lets an existing 'label' attribute win over the old id (needs relabelling twice or user data with that key)",
}
def main(ids):
    res = json.load(open(os.path.join(ROOT, "seeded", "results.json")))
    print("| id | change (what it needs to manifest) | confirmed | caught by (quick) |")
    print("|---|---|---|---|")
    for sid in ids:
        r = res.get(sid)
        if not r:
            continue
        det = [c for c, v in r["checks"].items() if v["rc"] == 1]
        inc = [c for c, v in r["checks"].items() if v["rc"] == 2]
        caught = ", ".join(det) if det else ("exit 2 (inconclusive) in " + ", ".join(inc) if inc else "**missed**")
        print(f"| {sid} | {DESC.get(sid, '')} | {'yes' if r['confirmed'] else 'no'} | {caught} |")
if __name__ == "__main__":
    main(sys.argv[1:] or sorted(DESC))
