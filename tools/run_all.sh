#!/bin/bash
# runs every claimed check at the given tier; prints rc and wall time per property
T=${1:-quick}
cd "$(dirname "$0")/.."
for p in $(python3 -c "import json; print(' '.join(c['property_id'] for c in json.load(open('MANIFEST.json'))['checks']))"); do
  s=$(date +%s)
  ./check $p --tier $T > /tmp/w/all_$p.log 2>&1
  rc=$?
  e=$(date +%s)
  echo "$p rc=$rc wall=$((e-s))s $(grep -c KNOWN-FINDING /tmp/w/all_$p.log) known  :: $(tail -1 /tmp/w/all_$p.log | cut -c1-150)"
done
