"""Exhaustive enumeration of small network shapes up to node/edge permutation."""
import itertools
from functools import lru_cache


def _canon_H(N, M, cols):
    """cols: tuple of M frozensets of node indices. Canonical form under
    permutations of nodes and of edges (edges sorted)."""
    best = None
    for perm in itertools.permutations(range(N)):
        c = tuple(sorted(tuple(sorted(perm[i] for i in col)) for col in cols))
        if best is None or c < best:
            best = c
    return best


@lru_cache(None)
def shapes_H(N, M):
    """All N-node, M-edge incidence structures (isolated nodes, empty edges,
    duplicate edges, nested edges all included), one per isomorphism class.
    A shape is (N, M, edges) with edges a tuple of tuples of node indices."""
    subsets = [frozenset(s) for r in range(N + 1) for s in itertools.combinations(range(N), r)]
    seen = set()
    out = []
    for cols in itertools.combinations_with_replacement(subsets, M):
        c = _canon_H(N, M, cols)
        if c not in seen:
            seen.add(c)
            out.append((N, M, c))
    return out


def shapes_H_upto(N, M):
    out = []
    for n in range(N + 1):
        for m in range(M + 1):
            out.extend(shapes_H(n, m))
    return out


@lru_cache(None)
def shapes_D(N, M):
    """Directed shapes: each (node, edge) cell in {absent, tail, head, both}.
    A shape is (N, M, edges) with edges a tuple of (tail tuple, head tuple)."""
    cells = list(itertools.product(range(4), repeat=N))  # per edge: a role per node
    seen = set()
    out = []
    for cols in itertools.combinations_with_replacement(cells, M):
        best = None
        for perm in itertools.permutations(range(N)):
            c = tuple(sorted(tuple(col[perm.index(i)] for i in range(N)) for col in cols))
            if best is None or c < best:
                best = c
        if best not in seen:
            seen.add(best)
            edges = tuple(
                (
                    tuple(i for i in range(N) if col[i] in (1, 3)),
                    tuple(i for i in range(N) if col[i] in (2, 3)),
                )
                for col in best
            )
            out.append((N, M, edges))
    return out


def shapes_D_upto(N, M):
    out = []
    for n in range(N + 1):
        for m in range(M + 1):
            out.extend(shapes_D(n, m))
    return out


@lru_cache(None)
def shapes_S(V, isolated=0):
    """All downward-closed, duplicate-free families of simplices of size >= 2 over
    exactly V used-or-not vertices (up to vertex permutation), plus `isolated`
    extra isolated vertices.  A shape is (N, M, edges) like shapes_H, with the
    simplices ordered by size (faces may come in any order in a real complex; the
    order is an insertion-order choice made by the builder)."""
    faces = [frozenset(s) for r in range(2, V + 1) for s in itertools.combinations(range(V), r)]
    seen = set()
    out = []
    # choose maximal faces, close downward
    for r in range(len(faces) + 1):
        for gens in itertools.combinations(faces, r):
            fam = set()
            for g in gens:
                for k in range(2, len(g) + 1):
                    for s in itertools.combinations(sorted(g), k):
                        fam.add(frozenset(s))
            c = _canon_H(V, len(fam), tuple(fam))
            if c not in seen:
                seen.add(c)
                edges = tuple(sorted(c, key=lambda t: (-len(t), t)))
                out.append((V + isolated, len(edges), edges))
    return out


def shapes_S_upto(V, isolated=(0, 1)):
    out = []
    seen = set()
    for v in range(V + 1):
        for iso in isolated:
            for s in shapes_S(v, iso):
                # drop shapes that merely re-embed a smaller vertex set with unused vertices
                if s not in seen:
                    seen.add(s)
                    out.append(s)
    return out
