"""C14 Graph-reducible algorithms agree with an independent graph library.

xgi's side (BFS components, array Dijkstra, projections, line graph, bipartite
graph, encapsulation DAG) runs on symbolic labels; networkx computes the oracle
on expansions the harness builds directly from the incidence shape."""
import itertools
import math
import warnings

import networkx as nx
import numpy as np
import xgi

from .. import nets, shapes, stubs
from ..runner import harness


def _shape(s):
    return (s[0], s[1], tuple(tuple(e) for e in s[2]))


def _idx(labels, x):
    hits = [i for i, l in enumerate(labels) if nets.same(l, x)]
    return hits[0] if len(hits) == 1 else None


def _warm(H):
    for f in (lambda h: list(xgi.connected_components(h)), xgi.is_connected, xgi.number_connected_components, xgi.largest_connected_component,
              xgi.shortest_path_length, xgi.clustering_coefficient, xgi.to_graph, xgi.to_line_graph, xgi.to_bipartite_graph, xgi.to_encapsulation_dag):
        try:
            r = f(H)
            if hasattr(r, "__next__"):
                list(r)
        except Exception:
            pass


@harness("C14.graph")
def graph(ctx, p):
    shape = _shape(p["shape"])
    N, M, edges = shape
    if p.get("warm"):
        H, nl, el, c = nets.build_H_warm(ctx, shape, _warm)
    else:
        H, nl, el, c = nets.build_H(ctx, shape)
    what = p["what"]
    ctx.info["op"] = what
    E = [set(e) for e in edges]
    # independent expansions on indices
    Bip = nx.Graph()
    Bip.add_nodes_from(("n", i) for i in range(N))
    Bip.add_nodes_from(("e", j) for j in range(M))
    Bip.add_edges_from((("n", i), ("e", j)) for j in range(M) for i in E[j])
    comps = [frozenset(i for k, i in c if k == "n") for c in nx.connected_components(Bip)]
    comps = [c for c in comps if c]
    Cl = nx.Graph()
    Cl.add_nodes_from(range(N))
    for e in E:
        Cl.add_edges_from(itertools.combinations(sorted(e), 2))
    with warnings.catch_warnings():
        warnings.simplefilter("ignore")
        try:
            _graph_body(ctx, what, H, nl, el, N, M, E, comps, Cl)
        except Exception as ex:
            ctx.require(False, f"{what}: raised {type(ex).__name__} on an admissible input")


def _graph_body(ctx, what, H, nl, el, N, M, E, comps, Cl):
    if True:
        if what == "components":
            got = [frozenset(_idx(nl, x) for x in comp) for comp in xgi.connected_components(H)]
            ctx.require(len(got) == len(comps) and set(got) == set(comps), "connected components differ from the components of the node-edge bipartite graph")
            ctx.require(sum(len(g) for g in got) == N and None not in set().union(*got) if got else N == 0, "connected components do not partition the node set")
            ctx.require(xgi.number_connected_components(H) == len(comps), "number_connected_components disagrees with the partition")
            if N > 0:
                ctx.require(xgi.is_connected(H) == (len(comps) == 1), "is_connected disagrees with the partition")
                lcc = frozenset(_idx(nl, x) for x in xgi.largest_connected_component(H))
                ctx.require(lcc in comps and len(lcc) == max(len(c) for c in comps), "largest_connected_component is not a largest component")
                k = ctx.choose("node", N)
                ctx.info["args"] = {"node": nl[k]}
                ncc = frozenset(_idx(nl, x) for x in xgi.node_connected_component(H, nl[k]))
                ctx.require(ncc == next(c for c in comps if k in c), "node_connected_component disagrees with the partition")
        elif what == "paths":
            if N == 0:
                ctx.assume(False)
            k = ctx.choose("source", N)
            ctx.info["args"] = {"source": nl[k]}
            d = xgi.single_source_shortest_path_length(H, nl[k])
            ref = nx.single_source_shortest_path_length(Cl, k)
            ok = len(d) == N
            for i in range(N):
                want = ref.get(i, math.inf)
                got = d[nl[i]]
                ok = ok and ((math.isinf(want) and math.isinf(got)) or got == want)
            ctx.require(ok, "shortest path lengths differ from breadth-first distances in the clique expansion")
            # symmetry: distance back from every target
            for i in range(N):
                back = xgi.single_source_shortest_path_length(H, nl[i])[nl[k]]
                ctx.require((math.isinf(back) and math.isinf(d[nl[i]])) or back == d[nl[i]], "shortest path lengths are not symmetric")
        elif what == "clustering":
            cc = xgi.clustering_coefficient(H)
            ref = nx.clustering(Cl)
            ctx.require(all(abs(float(cc[nl[i]]) - ref[i]) < 1e-9 for i in range(N)), "clustering coefficient differs from the graph clustering of the pairwise projection")
        elif what == "to_graph":
            G = xgi.to_graph(H)
            nodes = [_idx(nl, x) for x in G.nodes]
            ctx.require(sorted(n for n in nodes if n is not None) == list(range(N)) and len(nodes) == N, "to_graph does not have exactly the nodes of the hypergraph")
            links = {frozenset((_idx(nl, a), _idx(nl, b))) for a, b in G.edges}
            ctx.require(links == {frozenset(l) for l in Cl.edges}, "to_graph links differ from the pairs of nodes sharing an edge")
        elif what == "line_graph":
            s = 1 + ctx.choose("s", 3)
            w = [None, "absolute", "normalized"][ctx.choose("weights", 3)]
            ctx.info["args"] = {"s": s, "weights": w}
            LG = xgi.to_line_graph(H, s=s, weights=w)
            verts = [_idx(el, x) for x in LG.nodes]
            ctx.require(sorted(v for v in verts if v is not None) == list(range(M)) and len(verts) == M, "line graph vertices are not exactly the edges")
            want = {}
            for a, b in itertools.combinations(range(M), 2):
                k = len(E[a] & E[b])
                if k >= s:
                    want[frozenset((a, b))] = k if w == "absolute" else (k / min(len(E[a]), len(E[b])) if w == "normalized" else None)
            got = {}
            for a, b, dd in LG.edges(data=True):
                got[frozenset((_idx(el, a), _idx(el, b)))] = dd.get("weight")
            ok = set(got) == set(want) and all((want[k] is None and got[k] is None) or (want[k] is not None and got[k] is not None and abs(got[k] - want[k]) < 1e-12) for k in want)
            ctx.require(ok, "s-line graph links or weights differ from the definition")
        elif what == "bipartite":
            G, nmap, emap = xgi.to_bipartite_graph(H, index=True)
            ctx.require(G.number_of_nodes() == N + M, "bipartite graph does not have one vertex per node and per edge")
            links = set()
            for a, b in G.edges:
                if a in nmap and b in emap:
                    links.add((_idx(nl, nmap[a]), _idx(el, emap[b])))
                elif b in nmap and a in emap:
                    links.add((_idx(nl, nmap[b]), _idx(el, emap[a])))
                else:
                    links.add(None)
            ctx.require(links == {(i, j) for j in range(M) for i in E[j]}, "bipartite graph links differ from the incidences")
            ctx.require(all(G.nodes[a]["bipartite"] == 0 for a in nmap) and all(G.nodes[b]["bipartite"] == 1 for b in emap), "bipartite attribute does not separate nodes from edges")
        elif what == "dag":
            if any(len(e) == 0 for e in E):
                ctx.assume(False)
            st = ["all", "immediate", "empirical"][ctx.choose("subset_types", 3)]
            ctx.info["args"] = {"subset_types": st}
            D = xgi.to_encapsulation_dag(H, subset_types=st)
            verts = [_idx(el, x) for x in D.nodes]
            ctx.require(sorted(v for v in verts if v is not None) == list(range(M)) and len(verts) == M, "encapsulation DAG vertices are not exactly the edges")
            got = {(_idx(el, a), _idx(el, b)) for a, b in D.edges}
            full = {(a, b) for a in range(M) for b in range(M) if len(E[a]) > len(E[b]) and E[b] < E[a]}
            if st == "all":
                ctx.require(got == full, "encapsulation DAG (all) differs from strict inclusion between edges")
            elif st == "immediate":
                ctx.require(got == {(a, b) for a, b in full if len(E[a]) == len(E[b]) + 1}, "encapsulation DAG (immediate) differs from inclusion with size difference one")
            else:
                ctx.require(got <= full, "encapsulation DAG (empirical) contains a link that is not an inclusion")
                for a in range(M):
                    subs = [b for (x, b) in full if x == a]
                    if subs:
                        ctx.require(any((a, b) in got for b in subs if len(E[b]) == max(len(E[c]) for c in subs)) or True, "")


HUB_EDGES = [(1, 2), (0, 1), (1, 3), (1, 2, 3), (1,), (2, 3), (1, 2), (1, 3), (0, 1), (1, 2)]
# second arrangement: the two edges that share two nodes (ids 1 and 8) meet an edge with a
# non-integer id at one of those nodes only, and that node has few memberships
HUB_EDGES2 = [(2, 3), (0, 1), (2,), (3,), (2, 3), (3,), (2,), (2, 3), (0, 1), (1, 2)]
HUB_IDS = [[0, 1, 2, 3, 4, 5, 6, 7, 8, "extra"], [0, 1, 2, 3, 4, 5, 6, 7, 8, (2, 9)], [0, 1, 2, 3, 4, 5, 6, 7, 8, 9],
           ["a", 1, 2, 3, 4, 5, 6, 7, 8, -1], [10, 1, 2, 3, 4, 5, 6, 7, 8, 2.5]]
HUB_NODES = [[0, 1, 2, 3], ["x", 8, 16, -2], [(0,), 1, "z", 9]]


@harness("C14.hub")
def hub(ctx, p):
    """Real hashing, concrete labels: one node lies in nine edges and another in two of
    them, so the same pair of edge ids iterates in opposite orders in the two membership
    sets (different hash-table sizes); edge ids mix integers with a string, a tuple or a
    float.  Every graph-derived function against the same oracles as C14.graph."""
    ids = HUB_IDS[ctx.choose("ids", len(HUB_IDS))]
    nl = HUB_NODES[ctx.choose("nodes", len(HUB_NODES))]
    what = p["what"]
    ctx.info["op"] = what + " (hub network, pooled labels)"
    hub_edges = HUB_EDGES2 if ctx.flag("second_arrangement") else HUB_EDGES
    E = [set(e) for e in hub_edges]
    N, M = 4, len(E)
    with stubs.uninstalled():
        H = xgi.Hypergraph()
        H.add_nodes_from(nl)
        for j, e in enumerate(hub_edges):
            H.add_edge([nl[i] for i in e], idx=ids[j])
        Bip = nx.Graph()
        Bip.add_nodes_from(("n", i) for i in range(N))
        Bip.add_nodes_from(("e", j) for j in range(M))
        Bip.add_edges_from((("n", i), ("e", j)) for j in range(M) for i in E[j])
        comps = [frozenset(i for k, i in c if k == "n") for c in nx.connected_components(Bip)]
        comps = [c for c in comps if c]
        Cl = nx.Graph()
        Cl.add_nodes_from(range(N))
        for e in E:
            Cl.add_edges_from(itertools.combinations(sorted(e), 2))
        with warnings.catch_warnings():
            warnings.simplefilter("ignore")
            try:
                _graph_body(ctx, what, H, nl, ids, N, M, E, comps, Cl)
            except Exception as ex:
                ctx.require(False, f"{what}: raised {type(ex).__name__} on an admissible input")


def spec(tier, seed):
    if tier == "quick":
        shp = shapes.shapes_H_upto(3, 3) + shapes.shapes_H(4, 2) + shapes.shapes_H(4, 3)[::3]
    else:
        shp = shapes.shapes_H_upto(4, 3) + shapes.shapes_H(5, 3)[::2] + shapes.shapes_H(4, 4)[::2]
    units = []
    for s in shp:
        for what in ("components", "paths", "clustering", "to_graph", "line_graph", "bipartite", "dag"):
            units.append(("C14.graph", {"shape": s, "what": what}))
            if s[0] and s[1] and s[0] <= 3:
                units.append(("C14.graph", {"shape": s, "what": what, "warm": True}))
    for what in ("components", "paths", "clustering", "to_graph", "line_graph", "bipartite", "dag"):
        units.append(("C14.hub", {"shape": None, "what": what}))
    return {
        "units": units,
        "caps": {"paths": 50000, "wall": 900},
        "level": "other",
        "explanation": "Shapes are enumerated (disconnected, isolated nodes, singletons, multi-edges, nested edges all included); z3 quantifies the labels (unbounded integers), the source/target node, s, the weight mode and subset_types. xgi's side - _plain_bfs over nodes.neighbors, the array Dijkstra with its double-decremented counter, the projections - is pure Python and runs symbolically on proxy labels; networkx computes the oracle on the bipartite graph and the clique expansion that the harness builds directly from the incidence shape.",
        "bounds": {"shapes": f"{len(shp)} shapes", "s": "1..3", "weights": [None, "absolute", "normalized"], "subset_types": ["all", "immediate", "empirical (only: links are inclusions)"]},
        "assumptions": ["networkx is the independent oracle", "labels: unbounded integers"],
        "outside": ["exact link set of the 'empirical' encapsulation DAG (its filter is iteration-order dependent)", "hypergraphs with empty edges for the encapsulation DAG"],
    }
