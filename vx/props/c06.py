"""C06 Views and statistics are live and mutually consistent.

C06.live : views and stat objects are created and HELD, then one mutator with
           symbolic arguments runs, then the held objects are evaluated and
           compared with definitions computed from the post-state tables.
C06.query: per shape (no op): stat arguments (order, degree, weight), filterby
           with a symbolic threshold in every mode, filterby_attr, neighbors with
           symbolic s, lookup, duplicates, isolates, singletons, empty, maximal -
           against set-theoretic definitions; output formats agree.
C06.order: output formats follow view order under real hashing (labels are
           bounded numbers, exhaustively forked, inserted in a non-sorted order)."""
import warnings

import xgi

from .. import nets, ops, shapes, stubs
from ..runner import harness
from ..symx import SymBool

P = {"members": 2, "bulk": 1, "bulk_members": 2, "dimembers": 1, "bulk_dimembers": 1}
MODES = ["eq", "neq", "lt", "gt", "leq", "geq", "between"]


def _shapeH(s):
    return (s[0], s[1], tuple(tuple(e) for e in s[2]))


def _shapeD(s):
    return (s[0], s[1], tuple((tuple(t), tuple(h)) for t, h in s[2]))


def eq_seq(a, b):
    return nets.same(list(a), list(b))


def _cmp(mode, x, val):
    if mode == "eq":
        return x == val
    if mode == "neq":
        return x != val
    if mode == "lt":
        return x < val
    if mode == "gt":
        return x > val
    if mode == "leq":
        return x <= val
    if mode == "geq":
        return x >= val
    return (val[0] <= x) & (x <= val[1]) if isinstance(val[0] <= x, SymBool) or isinstance(x <= val[1], SymBool) else (val[0] <= x <= val[1])


# ---------------------------------------------------------------------------
# live
# ---------------------------------------------------------------------------
def _check_H(ctx, H, held, follow=True):
    node, edge = H._node, H._edge
    nodes, edges = list(node), list(edge)
    ctx.require(eq_seq(held["nodes"], nodes), "held node view does not list the current nodes in order")
    ctx.require(eq_seq(held["edges"], edges), "held edge view does not list the current edges in order")
    ctx.require(len(held["nodes"]) == len(nodes) and len(held["edges"]) == len(edges), "held view length is stale")
    deg = {n: len(node[n]) for n in nodes}
    size = {e: len(edge[e]) for e in edges}
    ctx.require(nets.same(held["degree"].asdict(), deg), "degree differs from the number of memberships")
    ctx.require(eq_seq(held["degree"].aslist(), [deg[n] for n in nodes]), "degree.aslist does not follow view order")
    ctx.require(nets.same(held["size"].asdict(), size), "size differs from the number of members")
    ctx.require(nets.same(held["order"].asdict(), {e: size[e] - 1 for e in edges}), "order differs from size - 1")
    ctx.require(sum(held["degree"].aslist()) == sum(held["size"].aslist()), "degrees do not sum to sizes")
    ctx.require(nets.same(H.degree(), deg), "network-level degree() differs")
    ctx.require(nets.same(held["nattr"].asdict(), {n: H._node_attr[n] for n in nodes}), "held attrs stat is stale")
    ctx.require(nets.same(held["multi"].asdict(), {n: {"degree": deg[n]} for n in nodes}), "held multi-stat is stale")
    ctx.require(eq_seq(held["emulti"].aslist(), [[size[e]] for e in edges]), "held edge multi-stat is stale")
    for k in (0, 1, 2):
        dk = {n: len([e for e in node[n] if len(edge[e]) == k + 1]) for n in nodes}
        ctx.require(nets.same(held["degree_k"][k].asdict(), dk), "degree(order=k) differs from its definition")
    ctx.require(nets.same(held["nodes"].memberships(), {n: set(node[n]) for n in nodes}), "held node view reports stale memberships")
    ctx.require(nets.same(held["edges"].members(dtype=dict), {e: set(edge[e]) for e in edges}), "held edge view reports stale members")
    if not follow:
        return
    # the held views keep following the network through one more addition
    x, i = ctx.fresh("x"), ctx.fresh("i")
    ctx.assume(*[x != n for n in nodes], *[i != e for e in edges if nets.intlike(e)])
    try:
        H.add_node(x)
        H.add_edge([x], idx=i)
    except Exception:
        return
    _check_H(ctx, H, held, follow=False)


def _check_D(ctx, D, held, follow=True):
    node, edge = D._node, D._edge
    nodes, edges = list(node), list(edge)
    ctx.require(eq_seq(held["nodes"], nodes), "held node view does not list the current nodes in order")
    ctx.require(eq_seq(held["edges"], edges), "held edge view does not list the current edges in order")
    ind = {n: len(node[n]["in"]) for n in nodes}
    outd = {n: len(node[n]["out"]) for n in nodes}
    tot = {n: len(node[n]["in"] | node[n]["out"]) for n in nodes}
    ctx.require(nets.same(held["in_degree"].asdict(), ind), "in_degree differs from the in-memberships")
    ctx.require(nets.same(held["out_degree"].asdict(), outd), "out_degree differs from the out-memberships")
    ctx.require(nets.same(held["degree"].asdict(), tot), "total degree differs from the union of memberships")
    ts = {e: len(edge[e]["in"]) for e in edges}
    hs = {e: len(edge[e]["out"]) for e in edges}
    sz = {e: len(edge[e]["in"] | edge[e]["out"]) for e in edges}
    ctx.require(nets.same(held["tail_size"].asdict(), ts), "tail_size differs from the tail")
    ctx.require(nets.same(held["head_size"].asdict(), hs), "head_size differs from the head")
    ctx.require(nets.same(held["size"].asdict(), sz), "size differs from |tail U head|")
    ctx.require(nets.same(held["order"].asdict(), {e: sz[e] - 1 for e in edges}), "order differs from size - 1")
    ctx.require(nets.same(held["tail_order"].asdict(), {e: ts[e] - 1 for e in edges}), "tail_order differs from tail_size - 1")
    ctx.require(nets.same(held["head_order"].asdict(), {e: hs[e] - 1 for e in edges}), "head_order differs from head_size - 1")
    ctx.require(sum(held["in_degree"].aslist()) == sum(held["head_size"].aslist()), "in-degrees do not sum to head sizes")
    ctx.require(sum(held["out_degree"].aslist()) == sum(held["tail_size"].aslist()), "out-degrees do not sum to tail sizes")
    for k in (0, 1, 2):
        def okk(e):
            return len(edge[e]["in"] | edge[e]["out"]) == k + 1
        ctx.require(nets.same(held["in_degree_k"][k].asdict(), {n: len([e for e in node[n]["in"] if okk(e)]) for n in nodes}), "in_degree(order=k) differs from its definition")
        ctx.require(nets.same(held["out_degree_k"][k].asdict(), {n: len([e for e in node[n]["out"] if okk(e)]) for n in nodes}), "out_degree(order=k) differs from its definition")
        ctx.require(nets.same(held["degree_k"][k].asdict(), {n: len([e for e in node[n]["in"] | node[n]["out"] if okk(e)]) for n in nodes}), "degree(order=k) differs from its definition")
    ctx.require(nets.same(held["nodes"].dimemberships(), {n: (set(node[n]["in"]), set(node[n]["out"])) for n in nodes}), "held node view reports stale memberships")
    ctx.require(nets.same(held["edges"].dimembers(dtype=dict), {e: (set(edge[e]["in"]), set(edge[e]["out"])) for e in edges}), "held edge view reports stale members")
    if not follow:
        return
    x, i = ctx.fresh("x"), ctx.fresh("i")
    ctx.assume(*[x != n for n in nodes], *[i != e for e in edges if nets.intlike(e)])
    try:
        D.add_node(x)
        D.add_edge(([x], [x]), idx=i)
    except Exception:
        return
    _check_D(ctx, D, held, follow=False)


@harness("C06.live")
def live(ctx, p):
    cls = p["cls"]
    if cls == "H":
        net = nets.build_H(ctx, _shapeH(p["shape"]), attrs=True)[0]
        held = {
            "nodes": net.nodes, "edges": net.edges, "degree": net.nodes.degree, "size": net.edges.size,
            "order": net.edges.order, "nattr": net.nodes.attrs,
            "degree_k": {k: net.nodes.degree(order=k) for k in (0, 1, 2)},
            "multi": net.nodes.multi(["degree"]), "emulti": net.edges.multi(["size"]),
        }
        held["multi"].asdict()
        held["emulti"].aslist()
        opf = ops.OPS_H[p["op"]]
    else:
        net = nets.build_D(ctx, _shapeD(p["shape"]), attrs=True)[0]
        held = {
            "nodes": net.nodes, "edges": net.edges, "degree": net.nodes.degree, "in_degree": net.nodes.in_degree,
            "out_degree": net.nodes.out_degree, "size": net.edges.size, "order": net.edges.order,
            "tail_size": net.edges.tail_size, "head_size": net.edges.head_size,
            "tail_order": net.edges.tail_order, "head_order": net.edges.head_order,
            "degree_k": {k: net.nodes.degree(order=k) for k in (0, 1, 2)},
            "in_degree_k": {k: net.nodes.in_degree(order=k) for k in (0, 1, 2)},
            "out_degree_k": {k: net.nodes.out_degree(order=k) for k in (0, 1, 2)},
        }
        opf = ops.OPS_D[p["op"]]
    # evaluate once before the edit so that a cached value would be observable
    held["degree"].asdict()
    held["size"].asdict()
    list(held["nodes"])
    ctx.info["op"] = p["op"]
    with stubs.rng(ctx, "xgi.core.hypergraph"):
        outcome, exc, w = ops.apply(ctx, net, opf, P)
    ctx.info["outcome"] = outcome if exc is None else f"raised {type(exc).__name__}"
    if p["op"] in ("convert_labels", "cleanup"):
        nets.reencode(net)  # rebinding tables: views are recreated by the library only on unpickle
        return
    with warnings.catch_warnings():
        warnings.simplefilter("ignore")
        try:
            if cls == "H":
                _check_H(ctx, net, held)
            else:
                _check_D(ctx, net, held)
        except Exception as ex:
            ctx.require(False, f"a view or statistic held across the edit raised {type(ex).__name__}")


# ---------------------------------------------------------------------------
# query
# ---------------------------------------------------------------------------
def _weights(ctx, net):
    for j, e in enumerate(net._edge):
        net._edge_attr[e]["w"] = ctx.int(f"w{j}", 0, 5)


def _no_raise(f):
    """Views and statistics of a valid network must evaluate: an exception from the
    library inside these harnesses is a violation, not a harness crash."""
    import functools

    @functools.wraps(f)
    def g(ctx, p):
        try:
            return f(ctx, p)
        except Exception as ex:
            ctx.require(False, f"a view or statistic raised {type(ex).__name__} on a valid network")
    return g


@harness("C06.query")
@_no_raise
def query(ctx, p):
    H = nets.build_H(ctx, _shapeH(p["shape"]), attrs=True)[0]
    node, edge = H._node, H._edge
    nodes, edges = list(node), list(edge)
    what = p["what"]
    ctx.info["op"] = what
    with warnings.catch_warnings():
        warnings.simplefilter("ignore")
        if what == "degree_args":
            _weights(ctx, H)
            k = ctx.int("order", -1, 3)
            ctx.info["args"] = {"order": k}
            w = {e: H._edge_attr[e]["w"] for e in edges}
            ctx.require(nets.same(H.nodes.degree(order=k).asdict(), {n: len([e for e in node[n] if len(edge[e]) == k + 1]) for n in nodes}), "degree(order) differs from its definition")
            ctx.require(nets.same(H.nodes.degree(weight="w").asdict(), {n: sum(w[e] for e in node[n]) for n in nodes}), "weighted degree differs from its definition")
            ctx.require(nets.same(H.nodes.degree(order=k, weight="w").asdict(), {n: sum(w[e] for e in node[n] if len(edge[e]) == k + 1) for n in nodes}), "weighted degree(order) differs from its definition")
            ctx.require(nets.same(H.nodes.degree(weight="absent").asdict(), {n: len(node[n]) for n in nodes}), "degree with a missing weight attribute does not count 1 per edge")
            d = ctx.int("degree", 0, 3)
            ctx.require(nets.same(H.edges.size(degree=d).asdict(), {e: len([n for n in edge[e] if len(node[n]) == d]) for e in edges}), "size(degree) differs from its definition")
            ctx.require(nets.same(H.edges.order(degree=d).asdict(), {e: len([n for n in edge[e] if len(node[n]) == d]) - 1 for e in edges}), "order(degree) differs from its definition")
        elif what == "filterby":
            mode = MODES[ctx.choose("mode", len(MODES))]
            kind = ctx.choose("kind", 2)
            v = ctx.int("val", -1, 4)
            v2 = ctx.int("val2", -1, 4)
            val = (v, v2) if mode == "between" else v
            ctx.info["args"] = {"mode": mode, "val": val, "stat": ["degree", "size"][kind]}
            if kind == 0:
                got = list(H.nodes.filterby("degree", val, mode))
                exp = [n for n in nodes if _cmp(mode, len(node[n]), val)]
            else:
                got = list(H.edges.filterby("size", val, mode))
                exp = [e for e in edges if _cmp(mode, len(edge[e]), val)]
            ctx.require(eq_seq(got, exp), "filterby does not return exactly the ids satisfying the comparison, in view order")
        elif what == "filterby_attr":
            mode = MODES[ctx.choose("mode", len(MODES))]
            v = ctx.fresh("t")
            v2 = ctx.fresh("t")
            val = (v, v2) if mode == "between" else v
            missing = ctx.fresh("t") if ctx.flag("use_missing") else None
            # one node lacks the attribute
            if nodes:
                del H._node_attr[nodes[-1]]["k"]
            ctx.info["args"] = {"mode": mode, "val": val, "missing": missing}
            got = list(H.nodes.filterby_attr("k", val, mode, missing=missing))
            exp = []
            for n in nodes:
                x = H._node_attr[n].get("k", missing)
                if x is not None and _cmp(mode, x, val):
                    exp.append(n)
            ctx.require(eq_seq(got, exp), "filterby_attr does not return exactly the ids satisfying the comparison")
        elif what == "neighbors":
            s = ctx.int("s", 1, 3)
            ctx.info["args"] = {"s": s}
            for n in nodes:
                exp = {m for e in node[n] for m in edge[e] if not nets.same(m, n)}
                ctx.require(nets.same(H.nodes.neighbors(n), exp), "node neighbors differ from the definition")
            for e in edges:
                exp = set()
                for f in edges:
                    if f is e:
                        continue
                    common = len([n for n in edge[e] if n in edge[f]])
                    if common >= 1 and common >= s:
                        exp.add(f)
                ctx.require(nets.same(H.edges.neighbors(e, s), exp), "edge s-neighbors differ from the definition")
        elif what == "sets":
            q = [ctx.fresh("q") for _ in range(ctx.choose("qk", 3))]
            ctx.info["args"] = {"lookup": q}
            ctx.require(eq_seq(H.edges.lookup(q), [e for e in edges if nets.same(edge[e], set(q))]), "lookup differs from the definition")
            ctx.require(eq_seq(H.nodes.isolates(), [n for n in nodes if len(node[n]) == 0]), "isolates differ from the definition")
            exp = [n for n in nodes if all(len(edge[e]) == 1 for e in node[n])]
            ctx.require(eq_seq(H.nodes.isolates(ignore_singletons=True), exp), "isolates(ignore_singletons) differ from the definition")
            ctx.require(eq_seq(H.edges.singletons(), [e for e in edges if len(edge[e]) == 1]), "singletons differ from the definition")
            ctx.require(eq_seq(H.edges.empty(), [e for e in edges if len(edge[e]) == 0]), "empty differs from the definition")
            # duplicates: every edge with the same members as another one, minus one representative per class
            dup = H.edges.duplicates()
            classes = []
            for e in edges:
                for c in classes:
                    if nets.same(edge[c[0]], edge[e]):
                        c.append(e)
                        break
                else:
                    classes.append([e])
            ctx.require(len(dup) == sum(len(c) - 1 for c in classes), "duplicates has the wrong cardinality")
            for c in classes:
                ctx.require(len([e for e in c if e in dup]) == len(c) - 1, "duplicates does not keep exactly one representative per class")
            # maximal
            def sub(a, b, strict):
                inside = all(n in edge[b] for n in edge[a])
                return inside and (len(edge[a]) < len(edge[b]) if strict else True)
            exp_max = [e for e in edges if not any(f is not e and sub(e, f, True) for f in edges)]
            exp_strict = [e for e in edges if not any(f is not e and sub(e, f, False) for f in edges)]
            try:
                got_max, got_strict = set(H.edges.maximal()), set(H.edges.maximal(strict=True))
            except Exception as ex:
                ctx.require(False, f"maximal raised {type(ex).__name__}")
            else:
                ctx.require(nets.same(got_max, set(exp_max)), "maximal differs from the definition")
                ctx.require(nets.same(got_strict, set(exp_strict)), "maximal(strict) differs from the definition")
        elif what == "formats":
            st = H.nodes.degree
            d = st.asdict()
            ctx.require(eq_seq(list(d), nodes), "asdict does not follow view order")
            ctx.require(eq_seq(st.aslist(), [d[n] for n in nodes]), "aslist disagrees with asdict")
            ctx.require(list(st.asnumpy()) == st.aslist(), "asnumpy disagrees with aslist")
            for n in nodes:
                ctx.require(st[n] == d[n], "stat[id] disagrees with asdict")
            m = H.nodes.multi(["degree", H.nodes.degree(order=1)])
            md = m.asdict()
            ctx.require(eq_seq(list(md), nodes), "multi.asdict does not follow view order")
            ctx.require(all(md[n]["degree"] == d[n] for n in nodes), "multi disagrees with the single stat")
            ctx.require(m.aslist() == [[d[n], len([e for e in node[n] if len(edge[e]) == 2])] for n in nodes], "multi.aslist disagrees")
            me = H.edges.multi(["size", "order"]).asdict()
            ctx.require(nets.same(me, {e: {"size": len(edge[e]), "order": len(edge[e]) - 1} for e in edges}), "edge multi-stat disagrees with the single stats")
            es = H.edges.size
            ctx.require(eq_seq(list(es.asdict()), edges) and es.aslist() == [len(edge[e]) for e in edges], "edge stat outputs disagree")
            if nodes:
                vals = [d[n] for n in nodes]
                ctx.require(st.max() == max(vals) and st.min() == min(vals) and st.sum() == sum(vals), "max/min/sum disagree with the values")
                ctx.require(st.argmax() is nodes[vals.index(max(vals))] and st.argmin() is nodes[vals.index(min(vals))], "argmax/argmin do not return the first id with the extreme value in view order")
                want = [n for _, n in sorted(zip(vals, range(len(nodes))), key=lambda t: t[0])]
                ctx.require(eq_seq(st.argsort(), [nodes[i] for i in want]), "argsort is not the stable order by value")
                ctx.require(abs(st.mean() - sum(vals) / len(vals)) < 1e-12, "mean disagrees with the values")
            called = H.nodes(nodes[:1])
            ctx.require(eq_seq(list(called), nodes[:1]) and eq_seq(list(called.degree.asdict()), nodes[:1]), "view(bunch) does not restrict the view and its stats")
            sub_view = H.nodes.filterby("degree", 1, "geq")
            sd = sub_view.degree.asdict()
            ctx.require(eq_seq(list(sd), [n for n in nodes if len(node[n]) >= 1]), "stat of a filtered view does not follow that view")


@harness("C06.dquery")
@_no_raise
def dquery(ctx, p):
    """Directed views and stat arguments against definitions on the tables."""
    D = nets.build_D(ctx, _shapeD(p["shape"]), attrs=True)[0]
    node, edge = D._node, D._edge
    nodes, edges = list(node), list(edge)
    for j, e in enumerate(edges):
        D._edge_attr[e]["w"] = ctx.int(f"w{j}", 0, 5)
    w = {e: D._edge_attr[e]["w"] for e in edges}
    k = ctx.int("order", -1, 3)
    d = ctx.int("degree", 0, 3)
    ctx.info["op"] = "directed views and stats"
    ctx.info["args"] = {"order": k, "degree": d}
    tail = {e: set(edge[e]["in"]) for e in edges}
    head = {e: set(edge[e]["out"]) for e in edges}
    both = {e: tail[e] | head[e] for e in edges}
    with warnings.catch_warnings():
        warnings.simplefilter("ignore")
        ctx.require(nets.same(D.edges.tail(dtype=dict), tail) and nets.same(D.edges.sources(dtype=dict), tail), "tail/sources differ from the stored tails")
        ctx.require(nets.same(D.edges.head(dtype=dict), head) and nets.same(D.edges.targets(dtype=dict), head), "head/targets differ from the stored heads")
        ctx.require(nets.same(D.edges.members(dtype=dict), both), "members differ from tail U head")
        ctx.require(nets.same(D.edges.dimembers(dtype=dict), {e: (tail[e], head[e]) for e in edges}), "dimembers differ from (tail, head)")
        ctx.require(nets.same([set(x) for x in D.edges.members()], [both[e] for e in edges]), "members() list does not follow edge order")
        inm = {n: set(node[n]["in"]) for n in nodes}
        outm = {n: set(node[n]["out"]) for n in nodes}
        ctx.require(nets.same(D.nodes.dimemberships(), {n: (inm[n], outm[n]) for n in nodes}), "dimemberships differ from (in, out)")
        ctx.require(nets.same(D.nodes.memberships(), {n: inm[n] | outm[n] for n in nodes}), "memberships differ from in U out")
        for e in edges:
            ctx.require(nets.same(D.edges.tail(e), tail[e]) and nets.same(D.edges.head(e), head[e]) and nets.same(D.edges.members(e), both[e]), "per-edge tail/head/members differ")
        def osz(e):
            return len(both[e]) == k + 1
        ctx.require(nets.same(D.nodes.degree(order=k).asdict(), {n: len([e for e in inm[n] | outm[n] if osz(e)]) for n in nodes}), "degree(order) differs from its definition")
        ctx.require(nets.same(D.nodes.in_degree(order=k).asdict(), {n: len([e for e in inm[n] if osz(e)]) for n in nodes}), "in_degree(order) differs from its definition")
        ctx.require(nets.same(D.nodes.out_degree(order=k).asdict(), {n: len([e for e in outm[n] if osz(e)]) for n in nodes}), "out_degree(order) differs from its definition")
        ctx.require(nets.same(D.nodes.degree(weight="w").asdict(), {n: sum(w[e] for e in inm[n] | outm[n]) for n in nodes}), "weighted degree differs from its definition")
        ctx.require(nets.same(D.nodes.in_degree(weight="w").asdict(), {n: sum(w[e] for e in inm[n]) for n in nodes}), "weighted in_degree differs from its definition")
        ctx.require(nets.same(D.nodes.out_degree(order=k, weight="w").asdict(), {n: sum(w[e] for e in outm[n] if osz(e)) for n in nodes}), "weighted out_degree(order) differs from its definition")
        for fname, ms in (("degree", {n: inm[n] | outm[n] for n in nodes}), ("in_degree", inm), ("out_degree", outm)):
            f = getattr(D.nodes, fname)
            ctx.require(nets.same(f(order=k, weight="w").asdict(), {n: sum(w[e] for e in ms[n] if osz(e)) for n in nodes}), f"weighted {fname}(order) differs from its definition")
            ctx.require(nets.same(f(weight="w").asdict(), {n: sum(w[e] for e in ms[n]) for n in nodes}), f"weighted {fname} differs from its definition")
            ctx.require(nets.same(f(order=k).asdict(), {n: len([e for e in ms[n] if osz(e)]) for n in nodes}), f"{fname}(order) differs from its definition")
            ctx.require(nets.same(f.asdict(), {n: len(ms[n]) for n in nodes}), f"{fname} differs from its definition")
        mm = D.edges.multi(["size", "tail_size", "head_size"]).asdict()
        ctx.require(nets.same(mm, {e: {"size": len(both[e]), "tail_size": len(tail[e]), "head_size": len(head[e])} for e in edges}), "directed edge multi-stat disagrees with the single stats")
        mn = D.nodes.multi(["degree", "in_degree", "out_degree"]).aslist()
        ctx.require(mn == [[len(inm[n] | outm[n]), len(inm[n]), len(outm[n])] for n in nodes], "directed node multi-stat disagrees with the single stats")
        deg = {n: len(inm[n] | outm[n]) for n in nodes}
        ctx.require(nets.same(D.edges.size(degree=d).asdict(), {e: len([n for n in both[e] if deg[n] == d]) for e in edges}), "size(degree) differs from its definition")
        ctx.require(nets.same(D.edges.tail_size(degree=d).asdict(), {e: len([n for n in tail[e] if deg[n] == d]) for e in edges}), "tail_size(degree) differs from its definition")
        ctx.require(nets.same(D.edges.head_size(degree=d).asdict(), {e: len([n for n in head[e] if deg[n] == d]) for e in edges}), "head_size(degree) differs from its definition")
        ctx.require(nets.same(D.edges.order(degree=d).asdict(), {e: len([n for n in both[e] if deg[n] == d]) - 1 for e in edges}), "order(degree) differs from its definition")
        ctx.require(nets.same(list(D.nodes.isolates()), [n for n in nodes if deg[n] == 0]), "directed isolates differ from the definition")
        ctx.require(nets.same(list(D.edges.empty()), [e for e in edges if len(both[e]) == 0]), "directed empty edges differ from the definition")


@harness("C06.order")
def order(ctx, p):
    """Output formats follow view order under REAL hashing: labels are bounded
    numbers (hash by exhaustive forking), so set iteration differs from insertion."""
    n = p["n"]
    labs = [ctx.int(f"n{i}", -2, 6, kind="N") for i in range(n)]
    ctx.assume(*[labs[i] != labs[j] for i in range(n) for j in range(i)])
    import operator
    labs = [operator.index(x) for x in labs]  # exhaustive fork: every assignment in the window
    ctx.info["op"] = "formats under real hashing"
    ctx.info["args"] = {"labels": labs}
    H = xgi.Hypergraph()
    H.add_nodes_from(labs)
    H.add_edge(labs[:2])
    kind = p["kind"]
    if kind == "node":
        view, st = H.nodes, H.nodes.degree
    else:
        for x in labs:
            H.add_edge([x], idx=x * 3 + 7)
        view, st = H.edges, H.edges.size
    ids = list(view)
    ctx.require(list(st.asdict()) == ids, "asdict does not follow view order")
    ctx.require(list(st.aspandas().index) == ids, "aspandas does not follow view order")
    ctx.require(list(st.aspandas().values) == st.aslist(), "aspandas values disagree with aslist")
    m = view.multi(["degree"] if kind == "node" else ["size"])
    ctx.require(list(m.aspandas().index) == ids, "multi.aspandas does not follow view order")
    ctx.require(list(m.asdict()) == ids, "multi.asdict does not follow view order")
    f = view.filterby("degree" if kind == "node" else "size", 0, "geq")
    ctx.require(list(f) == ids, "a filtered view does not keep view order")
    ctx.require(list(f.degree.aspandas().index if kind == "node" else f.size.aspandas().index) == ids, "aspandas of a filtered view does not follow view order")


def spec(tier, seed):
    if tier == "quick":
        shH = shapes.shapes_H_upto(2, 2) + shapes.shapes_H(3, 1)
        shD = shapes.shapes_D_upto(2, 1) + shapes.shapes_D(1, 2)
        shQ = shapes.shapes_H_upto(3, 2) + shapes.shapes_H(2, 3)
    else:
        shH = shapes.shapes_H_upto(3, 2) + shapes.shapes_H(2, 3)
        shD = shapes.shapes_D_upto(2, 2)
        shQ = shapes.shapes_H_upto(3, 3) + shapes.shapes_H(4, 2)
    units = []
    for s in shH:
        for op in ops.OPS_H:
            if op in ops.HEAVY_H and not op.endswith(("_2", "_5")):
                continue
            units.append(("C06.live", {"cls": "H", "shape": s, "op": op}))
    for s in shD:
        for op in ops.OPS_D:
            if op in ops.HEAVY_D and not op.endswith(("_2", "_5")):
                continue
            units.append(("C06.live", {"cls": "D", "shape": s, "op": op}))
    for s in shQ:
        for what in ("degree_args", "filterby", "filterby_attr", "neighbors", "sets", "formats"):
            units.append(("C06.query", {"cls": "H", "shape": s, "what": what}))
    for s in (shD if tier == "quick" else shapes.shapes_D_upto(2, 2)):
        units.append(("C06.dquery", {"cls": "D", "shape": s}))
    for kind in ("node", "edge"):
        for n in (2, 3):
            units.append(("C06.order", {"cls": "H", "shape": None, "kind": kind, "n": n}))
    return {
        "units": units,
        "caps": {"paths": 200000, "wall": 900},
        "level": "model_checking",
        "bounds": {"live": f"{len(shH)} Hypergraph + {len(shD)} DiHypergraph shapes x mutator alphabet, views/stats held across the call",
                   "query": f"{len(shQ)} shapes; order in [-1,3], degree in [0,3], weights in [0,5], thresholds in [-1,4], attribute values and thresholds unbounded, s in [1,3]",
                   "order": "labels in [-2,6] exhaustively (real hashing), 2-3 ids"},
        "assumptions": ["labels unbounded integers except in C06.order", "set iteration = insertion order except in C06.order (real hashing)"],
        "outside": ["ashist, moments and float-valued statistics", "centrality-valued stats"],
    }
