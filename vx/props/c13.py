"""C13 Boundary operators form a chain complex.

The real boundary_matrix / hodge_laplacian run with `np` in xgi.linalg.hodge_matrix
replaced by a dict-backed integer matrix; one orientation bit per simplex, the
vertex labels (all label orders) and the simplex ids are solver variables.  One
small query per matrix entry: column structure, entries +-1, B_{k-1} B_k = 0,
Laplacian symmetric and equal to B_k^T B_k + B_{k+1} B_{k+1}^T."""
import itertools
import warnings

import numpy as np
import xgi

from .. import nets, realq, shapes, stubs
from ..runner import harness
from ..symx import SymInt

POOL = [-2, -1, 2, 9, 10, "a", "b10", "b9"]


def _shape(s):
    return (s[0], s[1], tuple(tuple(e) for e in s[2]))


def _check(ctx, S, orient, use_stub):
    import xgi.linalg.hodge_matrix as hm

    dim = max((len(m) for m in S._edge.values()), default=1) - 1
    if use_stub:
        stubs.install_extra("xgi.linalg.hodge_matrix", "np", stubs.NPStub(ctx))
    try:
        Bs = {}
        for k in range(0, dim + 2):
            try:
                B, rowd, cold = hm.boundary_matrix(S, k, orient, True)
            except Exception as ex:
                ctx.require(False, f"boundary_matrix(order={k}) raised {type(ex).__name__}")
                return
            Bs[k] = (B, rowd, cold)
            if k == 0:
                continue
            nd, nu = B.shape
            for j in range(nu):
                sid = cold[j]
                mem = set(S._edge[sid])
                nz = 0
                for i in range(nd):
                    rid = rowd[i]
                    face = {rid} if k == 1 else set(S._edge[rid])
                    is_face = len(face) == k and all(x in mem for x in face)
                    v = B[i, j]
                    if is_face:
                        ctx.require((v == 1) | (v == -1) if isinstance(v, SymInt) else v in (1, -1), "a boundary entry at a face is not +-1")
                        nz += 1
                    else:
                        ctx.require(v == 0, "a boundary entry outside the faces is not zero")
                ctx.require(nz == k + 1, "a boundary column does not have k+1 face entries")
        for k in range(1, dim + 2):
            A, B = Bs[k - 1][0], Bs[k][0]
            if k - 1 == 0 or 0 in A.shape or 0 in B.shape:
                continue
            prod = A @ B
            for i in range(prod.shape[0]):
                for j in range(prod.shape[1]):
                    ctx.require(prod[i, j] == 0, "the product of consecutive boundary matrices is not zero")
        for k in range(0, dim + 1):
            try:
                L = hm.hodge_laplacian(S, k, orient)
            except Exception as ex:
                ctx.require(False, f"hodge_laplacian(order={k}) raised {type(ex).__name__}")
                return
            Bk, Bk1 = Bs[k][0], Bs[k + 1][0]
            n = L.shape[0]
            for i in range(n):
                for j in range(n):
                    exp = 0
                    if 0 not in Bk.shape:
                        exp = sum(Bk[r, i] * Bk[r, j] for r in range(Bk.shape[0]))
                    if 0 not in Bk1.shape:
                        exp = exp + sum(Bk1[i, c] * Bk1[j, c] for c in range(Bk1.shape[1]))
                    ctx.require(L[i, j] == exp, "hodge_laplacian differs from B_k^T B_k + B_{k+1} B_{k+1}^T")
                    if j < i:
                        ctx.require(L[i, j] == L[j, i], "hodge_laplacian is not symmetric")
    finally:
        if use_stub:
            stubs._installed.pop()
            import importlib

            importlib.import_module("xgi.linalg.hodge_matrix").np = np


@harness("C13.chain")
def chain(ctx, p):
    S, nl, el, c = nets.build_H(ctx, _shape(p["shape"]), cls=xgi.SimplicialComplex)
    if p.get("one_label_order"):
        # the largest complex: one label order (n0 < n1 < ...), all orientation bits symbolic
        ctx.assume(*[nl[i] < nl[i + 1] for i in range(len(nl) - 1)])
    orient = {}
    for j, e in enumerate(el):
        orient[e] = ctx.int(f"o{j}", 0, 1)
    ctx.info["op"] = "boundary_matrix/hodge_laplacian"
    ctx.info["args"] = {"orientations": orient, "labels": nl, "ids": el}
    with warnings.catch_warnings():
        warnings.simplefilter("ignore")
        _check(ctx, S, orient, ctx.symbolic)  # the concrete replay runs on real numpy


@harness("C13.pool")
def pool(ctx, p):
    """Concrete labels from a pool with strings, negative and multi-digit numbers
    (every injective assignment), default orientation and symbolic orientation bits."""
    N, M, edges = _shape(p["shape"])
    avail = list(POOL)
    nl = []
    for i in range(N):
        k = ctx.choose(f"lab{i}", len(avail))
        nl.append(avail.pop(k))
    S = xgi.SimplicialComplex()
    S.add_nodes_from(nl)
    ids = {}
    for j in range(M):
        idx = f"s{j}" if p.get("strids") else None
        S._edge_uid = S._edge_uid
        mem = frozenset(nl[i] for i in edges[j])
        if idx is None:
            idx = j + 5
        S._edge[idx] = mem
        S._edge_attr[idx] = {}
        for n in mem:
            S._node[n].add(idx)
        ids[j] = idx
    if p.get("orient"):
        orient = {ids[j]: ctx.int(f"o{j}", 0, 1) for j in range(M)}
    else:
        orient = None
    stub = ctx.symbolic
    ctx.info["op"] = "boundary_matrix/hodge_laplacian (label pool)"
    ctx.info["args"] = {"labels": nl, "orientations": orient}
    with warnings.catch_warnings():
        warnings.simplefilter("ignore")
        _check(ctx, S, orient, stub)


@harness("C13.valuetypes")
def valuetypes(ctx, p):
    """Orientation values of other boolean/integer types (python bool, numpy bool,
    numpy int): every assignment is a path; real numpy."""
    N, M, edges = _shape(p["shape"])
    conv = {"bool": bool, "np.bool_": np.bool_, "np.int64": np.int64}[p["vtype"]]
    S = xgi.SimplicialComplex()
    S.add_nodes_from(range(N))
    orient = {}
    for j in range(M):
        S._edge[j + 3] = frozenset(edges[j])
        S._edge_attr[j + 3] = {}
        for n in edges[j]:
            S._node[n].add(j + 3)
        orient[j + 3] = conv(ctx.flag(f"o{j}"))
    ctx.info["op"] = "boundary_matrix (orientation value type " + p["vtype"] + ")"
    ctx.info["args"] = {"orientations": {k: int(v) for k, v in orient.items()}}
    with warnings.catch_warnings():
        warnings.simplefilter("ignore")
        with stubs.uninstalled():
            _check(ctx, S, orient, False)


def _components(N, edges):
    comp = list(range(N))

    def find(a):
        while comp[a] != a:
            a = comp[a]
        return a

    for e in edges:
        e = list(e)
        for b in e[1:]:
            comp[find(b)] = find(e[0])
    return [find(a) for a in range(N)]


@harness("C13.spectrum", raises_are_violations=True)
def spectrum(ctx, p):
    """The 'consequently' clauses on the matrices the real code returns (real numpy, integer
    entries taken exactly): for every real vector x, x^T L_k x >= 0; and the kernel of L_0 is
    exactly the span of the component indicators - every indicator is mapped to zero, and no
    vector in the kernel takes two values on one component (two z3 queries over the reals,
    the vector is the solver variable).  Orientation bits: every assignment (forked) on
    complexes with at most 6 simplices, the default orientation above."""
    N, M, edges = _shape(p["shape"])
    labs = POOL[:N] if p.get("pool") else list(range(N))
    S = xgi.SimplicialComplex()
    S.add_nodes_from(labs)
    orient = {}
    for j in range(M):
        S._edge[j + 3] = frozenset(labs[i] for i in edges[j])
        S._edge_attr[j + 3] = {}
        for i in edges[j]:
            S._node[labs[i]].add(j + 3)
        if M <= 6:
            orient[j + 3] = int(ctx.flag(f"o{j}"))
    if M > 6:
        orient = None
    ctx.info["op"] = "hodge_laplacian (positive semidefinite; kernel of L_0)"
    ctx.info["args"] = {"labels": labs, "orientations": orient}
    dim = max((len(e) for e in edges), default=1) - 1
    comp = _components(N, edges)
    with warnings.catch_warnings():
        warnings.simplefilter("ignore")
        with stubs.uninstalled():
            for k in range(0, dim + 1):
                L, md = xgi.hodge_laplacian(S, k, orient, index=True)
                L = np.asarray(L)
                n = L.shape[0]
                ctx.require(L.shape == (n, n), f"hodge_laplacian(order={k}) is not square")
                realq.require_psd(ctx, L, f"hodge_laplacian(order={k})")
                if k == 0:
                    pos = {lab: i for i, lab in md.items()}
                    ctx.require(set(pos) == set(labs) and len(md) == N, "hodge_laplacian(order=0) is not indexed by the nodes")
                    if set(pos) != set(labs):
                        return
                    for c in set(comp):
                        ind = [1 if comp[a] == c else 0 for a in range(N)]
                        ok = all(sum(int(L[pos[labs[a]], pos[labs[b]]]) * ind[b] for b in range(N)) == 0 for a in range(N))
                        ctx.require(ok, "the indicator of a connected component is not in the kernel of the order-0 Laplacian")
                    y = [ctx.real(f"y{i}") for i in range(N)]
                    inker = True
                    for a in range(N):
                        row = 0
                        for b in range(N):
                            v = int(L[pos[labs[a]], pos[labs[b]]])
                            if v:
                                row = y[b] * v + row
                        if not isinstance(row, int):
                            ctx.assume(row == 0)
                    for a in range(N):
                        for b in range(a + 1, N):
                            if comp[a] == comp[b]:
                                ctx.require(y[a] == y[b], "the kernel of the order-0 Laplacian is larger than the span of the component indicators (a kernel vector takes two values on one connected component)")


def spec(tier, seed):
    if tier == "quick":
        shp = [s for s in shapes.shapes_S_upto(4, (0,)) if s[1] > 0]
        poolsh = [s for s in shapes.shapes_S_upto(3, (0,)) if s[1] > 0]
    else:
        shp = [s for s in shapes.shapes_S_upto(4, (0, 1)) if s[1] > 0]
        poolsh = [s for s in shapes.shapes_S_upto(4, (0,)) if s[1] > 0]
    units = [("C13.chain", {"shape": s}) for s in shp]
    if tier != "quick":
        units.append(("C13.chain", {"shape": full_simplex(5), "one_label_order": True}))
    for s in shp:
        if 4 <= s[1] <= (7 if tier == "quick" else 9) and max(len(e) for e in s[2]) >= 3:
            for vt in ("bool", "np.bool_", "np.int64"):
                units.append(("C13.valuetypes", {"shape": s, "vtype": vt}))
    for s in (shapes.shapes_S_upto(4, (0, 1)) if tier == "quick" else shapes.shapes_S_upto(4, (0, 1, 2))):
        if s[0]:
            units.append(("C13.spectrum", {"shape": s}))
            units.append(("C13.spectrum", {"shape": s, "pool": True}))
    for s in poolsh:
        units.append(("C13.pool", {"shape": s, "orient": False, "strids": False}))
        units.append(("C13.pool", {"shape": s, "orient": True, "strids": True}))
    return {
        "units": units,
        "caps": {"paths": 200000, "wall": 1500, "path_timeout": 1200},
        "level": "model_checking",
        "bounds": {"complexes": f"{len(shp)} downward-closed complexes on <= 4 vertices" + (" + the full 4-simplex on 5 vertices (30 symbolic orientation bits, one label order)" if tier != "quick" else ""),
                   "orientations": "one solver bit per simplex (all 2^m assignments decided symbolically)",
                   "labels": "unbounded integer vertex labels (every label order through the reference sort), symbolic simplex ids; label pool " + repr(POOL) + " with every injective assignment on the smaller complexes",
                   "queries": "one per matrix entry"},
        "assumptions": ["numpy in xgi.linalg.hodge_matrix replaced by a dict-backed integer matrix (zeros, item assignment, transpose, @, +); validated against real numpy on the concrete replays",
                        "C13.spectrum: positive semidefiniteness of every L_k and 'kernel of L_0 = span of the component indicators' are decided by z3 over the reals on the integer matrices the real code returns under real numpy (the vector is the solver variable; orientation bits forked exhaustively up to 6 simplices, default orientation above)"],
        "outside": ["complexes on more than 4 (5) vertices"],
    }


def full_simplex(v):
    faces = [tuple(c) for k in range(v, 1, -1) for c in itertools.combinations(range(v), k)]
    return (v, len(faces), tuple(faces))
