"""C18 Frozen networks cannot be structurally modified.

Phase 1 (discovery, concrete): every public callable attribute of each class and
every in-place library function is called with name-based recipe arguments on a
few concrete networks; the ones that change the structural snapshot on an
unfrozen network are the structural mutators (so new mutators are included
automatically).  Phase 2 (symbolic): on every small shape, after freeze() and on
subhypergraph() results, every discovered mutator - through the dedicated
symbolic-argument ops and through a generic recipe call with symbolic ids -
must raise the library's error and leave the structural snapshot unchanged on
every path; is_frozen is True; copy() is unfrozen, equal and editable."""
import inspect
import warnings

import xgi

from .. import nets, ops, shapes, stubs
from ..runner import harness

CLS = {"H": xgi.Hypergraph, "D": xgi.DiHypergraph, "S": xgi.SimplicialComplex}
OPS = {"H": ops.OPS_H, "D": ops.OPS_D, "S": ops.OPS_S}
P = {"members": 2, "bulk": 1, "bulk_members": 2, "dimembers": 1, "bulk_dimembers": 1, "smembers": 2,
     "sbulk_first": 2, "sbulk_rest": 1, "max_orders": [None]}
LIB_ERRORS = (xgi.exception.XGIError, xgi.exception.IDNotFound)

# library functions documented as (optionally) in-place
INPLACE_FUNCS = {
    "convert_labels_to_integers": lambda net: xgi.convert_labels_to_integers(net, in_place=True),
    "largest_connected_hypergraph": lambda net: xgi.largest_connected_hypergraph(net, in_place=True),
}


def structural(net):
    s = nets.snap(net)
    return {k: s[k] for k in ("nodes", "edges", "members", "memberships")}


# ---------------------------------------------------------------------------
# generic recipe: arguments from parameter names
# ---------------------------------------------------------------------------
# Required parameters of the structural mutators of the pinned public API.  Discovery
# below reads signatures from the code under test; when a change hides a signature
# behind (*args, **kwargs) the pinned names keep the mutator in the alphabet.
PINNED = {
    "H": {"add_edge": ["members"], "add_edges_from": ["ebunch_to_add"], "add_node": ["node"], "add_node_to_edge": ["edge", "node"], "add_nodes_from": ["nodes_for_adding"], "add_weighted_edges_from": ["ebunch"], "cleanup": [], "clear": [], "clear_edges": [], "double_edge_swap": ["n_id1", "n_id2", "e_id1", "e_id2"], "merge_duplicate_edges": [], "random_edge_shuffle": [], "remove_edge": ["idx"], "remove_edges_from": ["ebunch"], "remove_node": ["n"], "remove_node_from_edge": ["edge", "node"], "remove_nodes_from": ["nodes"]},
    "D": {"add_edge": ["members"], "add_edges_from": ["ebunch_to_add"], "add_node": ["node"], "add_node_to_edge": ["edge", "node", "direction"], "add_nodes_from": ["nodes_for_adding"], "cleanup": [], "clear": [], "remove_edge": ["idx"], "remove_edges_from": ["ebunch"], "remove_node": ["n"], "remove_node_from_edge": ["edge", "node", "direction"], "remove_nodes_from": ["nodes"]},
    "S": {"add_edge": ["members"], "add_edges_from": ["ebunch_to_add"], "add_node": ["node"], "add_nodes_from": ["nodes_for_adding"], "add_simplex": ["members"], "add_simplices_from": ["ebunch_to_add"], "add_weighted_edges_from": ["ebunch_to_add"], "add_weighted_simplices_from": ["ebunch_to_add"], "cleanup": [], "clear": [], "clear_edges": [], "random_edge_shuffle": [], "remove_edge": ["idx"], "remove_edges_from": ["ebunch"], "remove_node": ["n"], "remove_nodes_from": ["nodes"], "remove_simplex_id": ["idx"], "remove_simplex_ids_from": ["ebunch"]},
}


def _opaque(sig):
    named = [n for n, par in sig.parameters.items() if n != "self" and par.kind not in (par.VAR_POSITIONAL, par.VAR_KEYWORD)]
    return not named and any(par.kind in (par.VAR_POSITIONAL, par.VAR_KEYWORD) for par in sig.parameters.values())


def recipe_args(name, sig, directed, lab, present_node=None, present_edge=None, cls=None):
    """lab() yields an id; returns kwargs (in positional order) or None when no recipe applies."""
    kwargs = {}
    if _opaque(sig) and cls is not None and name in PINNED.get(cls, {}):
        required = list(PINNED[cls][name])
    else:
        required = [pn for pn, par in sig.parameters.items()
                    if pn != "self" and par.kind not in (par.VAR_POSITIONAL, par.VAR_KEYWORD) and par.default is inspect._empty]
    for pname in required:
        if cls == "S" and name == "add_edge" and pname == "edge":
            pname_key, pname = pname, "members"
        else:
            pname_key = pname
        if pname in ("node", "n", "n_id1", "n_id2"):
            kwargs[pname_key] = present_node if present_node is not None else lab()
        elif pname in ("idx", "edge", "e_id1", "e_id2"):
            kwargs[pname_key] = present_edge if present_edge is not None else lab()
        elif pname in ("nodes_for_adding", "nodes"):
            kwargs[pname_key] = [lab(), present_node if present_node is not None else lab()]
        elif pname == "members":
            kwargs[pname_key] = ([lab()], [lab()]) if directed else [lab(), lab()]
        elif pname in ("ebunch_to_add",):
            kwargs[pname_key] = [([lab()], [lab()])] if directed else [[lab(), lab()]]
        elif pname == "ebunch":
            if name.startswith("add_weighted"):
                kwargs[pname_key] = [(lab(), lab(), 7)]
            elif name.startswith("remove"):
                kwargs[pname_key] = [present_edge if present_edge is not None else lab()]
            else:
                kwargs[pname_key] = [[lab(), lab()]]
        elif pname == "values":
            kwargs[pname_key] = {lab(): {"k": 1}}
        elif pname == "direction":
            kwargs[pname_key] = "in"
        elif pname == "simplex":
            kwargs[pname_key] = [lab(), lab()]
        else:
            return None
    return kwargs


_DISCOVERY = {}


def discover():
    """Concrete probing: which public callables change structure on an unfrozen net."""
    if _DISCOVERY:
        return _DISCOVERY
    samples = {
        "H": [lambda: xgi.Hypergraph([[1, 2, 3], [3, 4], [3, 4], [5]]), lambda: xgi.Hypergraph({10: [1, 2], 11: [2, 3]})],
        "D": [lambda: xgi.DiHypergraph([([1, 2], [2, 3]), ([3], [4])])],
        "S": [lambda: xgi.SimplicialComplex([[1, 2, 3], [3, 4]])],
    }
    for cls, mk in samples.items():
        muts, unexercised, nonmut = set(), [], []
        names = [n for n in dir(CLS[cls]) if not n.startswith("_") and callable(getattr(CLS[cls], n))]
        for name in names + list(INPLACE_FUNCS):
            changed = False
            called = False
            for make in mk:
                for mode in ("present", "fresh"):
                    net = make()
                    if name in ("cleanup",):
                        pass
                    counter = iter(range(100, 200))
                    pn = next(iter(net.nodes)) if mode == "present" and net.num_nodes else None
                    pe = next(iter(net.edges)) if mode == "present" and net.num_edges else None
                    before = structural(net)
                    try:
                        with warnings.catch_warnings():
                            warnings.simplefilter("ignore")
                            if name in INPLACE_FUNCS:
                                INPLACE_FUNCS[name](net)
                            else:
                                f = getattr(net, name)
                                kw = recipe_args(name, inspect.signature(f), cls == "D", lambda: next(counter), pn, pe, cls=cls)
                                opaque = _opaque(inspect.signature(f))
                                if kw is None:
                                    continue
                                if name == "double_edge_swap":
                                    es = list(net.edges)
                                    m0, m1 = list(net.edges.members(es[0])), list(net.edges.members(es[1]))
                                    kw = {"n_id1": m0[0], "n_id2": [x for x in m1 if x not in m0][0], "e_id1": es[0], "e_id2": es[1]}
                                if opaque:
                                    f(*kw.values())
                                else:
                                    f(**kw)
                        called = True
                    except Exception:
                        called = True
                    if not nets.same(before, structural(net)):
                        changed = True
            if not called:
                unexercised.append(name)
            elif changed:
                muts.add(name)
            else:
                nonmut.append(name)
        _DISCOVERY[cls] = {"mutators": sorted(muts), "unexercised": unexercised, "non_mutators": nonmut}
    return _DISCOVERY


def method_of(opname):
    """The public method/function an op of vx.ops exercises (by name)."""
    special = {
        "convert_labels": "convert_labels_to_integers",
        "largest_cc": "largest_connected_hypergraph",
        "none_ids": None,
        "add_edge_none": "add_edge",
        "add_edge_stridx": "add_edge",
        "add_edges_from_none": "add_edges_from",
        "add_nodes_from_attr": "add_nodes_from",
        "add_simplex_none": "add_simplex",
        "add_simplices_from_maxorder": "add_simplices_from",
        "dep_add_edge": "add_edge",
        "dep_add_edges_from": "add_edges_from",
        "dep_remove_edge": "remove_edge",
        "dep_remove_edges_from": "remove_edges_from",
    }
    if opname in special:
        return special[opname]
    base = opname
    while base and base[-1].isdigit():
        base = base[:-1]
    return base.rstrip("_")


def _shape(p):
    s = p["shape"]
    if p["cls"] == "D":
        return (s[0], s[1], tuple((tuple(t), tuple(h)) for t, h in s[2]))
    return (s[0], s[1], tuple(tuple(e) for e in s[2]))


def _frozen_net(ctx, p):
    s = _shape(p)
    if p["cls"] == "D":
        net = nets.build_D(ctx, s)[0]
    else:
        net = nets.build_H(ctx, s, cls=CLS[p["cls"]])[0]
    if p["via"] == "freeze":
        ctx.require(net.is_frozen is False, "is_frozen is not False before freeze()")
        net.freeze()
    elif p["via"] == "subhypergraph_sel":
        # selections: nodes [] / one solver-chosen label (present or absent; None is the plain route),
        # edges None / one solver-chosen id, keep_isolates solver-chosen
        nsel = [[], [ctx.fresh("sn")]][ctx.choose("nsel", 2)]
        esel = [None, [ctx.fresh("se")]][ctx.choose("esel", 2)]
        keep = ctx.flag("keep_isolates")
        ctx.info["selection"] = {"nodes": nsel, "edges": esel, "keep_isolates": keep}
        with warnings.catch_warnings():
            warnings.simplefilter("ignore")
            net = xgi.subhypergraph(net, nodes=nsel, edges=esel, keep_isolates=keep)
    else:  # the result of subhypergraph is frozen
        with warnings.catch_warnings():
            warnings.simplefilter("ignore")
            net = xgi.subhypergraph(net)
    return net


def _build(ctx, p):
    s = _shape(p)
    if p["cls"] == "D":
        return nets.build_D(ctx, s)[0]
    return nets.build_H(ctx, s, cls=CLS[p["cls"]])[0]


def _call(ctx, p, net):
    """One call of the mutator under test; returns (outcome, exception)."""
    if p["kind"] == "op":
        with stubs.rng(ctx, "xgi.core.hypergraph"):
            outcome, exc, w = ops.apply(ctx, net, OPS[p["cls"]][p["op"]], P)
        return outcome, exc
    name = p["op"]
    try:
        with warnings.catch_warnings():
            warnings.simplefilter("ignore")
            with stubs.rng(ctx, "xgi.core.hypergraph"):
                if name in INPLACE_FUNCS:
                    ctx.info["args"] = {}
                    INPLACE_FUNCS[name](net)
                else:
                    f = getattr(net, name)
                    sig = inspect.signature(getattr(CLS[p["cls"]], name))
                    kw = recipe_args(name, sig, p["cls"] == "D", lambda: ctx.fresh(), cls=p["cls"])
                    ctx.info["args"] = kw
                    if p.get("style") == "positional" or _opaque(sig):
                        f(*kw.values())
                    else:
                        f(**kw)
    except Exception as ex:
        return "raised", ex
    return "returned", None


@harness("C18.frozen")
def frozen(ctx, p):
    net = _frozen_net(ctx, p)
    ctx.info["op"] = p["op"]
    before = structural(net)
    ctx.require(net.is_frozen is True, "is_frozen is not True after freeze()/subhypergraph()")
    mark = dict(ctx.seq)
    outcome, exc = _call(ctx, p, net)
    ctx.info["outcome"] = outcome if exc is None else f"raised {type(exc).__name__}"
    ctx.require(nets.same(before, structural(net)), "a frozen network was structurally modified")
    ctx.require(net.is_frozen is True, "is_frozen is not True after the rejected call")
    # the same call with the same (symbolic) arguments on an equal unfrozen twin
    with nets.twin(ctx, mark):
        tw = _build(ctx, p)
        tw_before = structural(tw)
        _call(ctx, p, tw)
        would_change = not nets.same(tw_before, structural(tw))
    ctx.info["would_change_unfrozen"] = would_change
    if would_change:
        ctx.require(exc is not None, "a call that would change the structure returned normally on a frozen network")
        ctx.require(exc is None or isinstance(exc, LIB_ERRORS), "a call that would change the structure raised a foreign error type on a frozen network")


@harness("C18.copy")
def copy(ctx, p):
    net = _frozen_net(ctx, p)
    ctx.info["op"] = "copy"
    cp = net.copy()
    ctx.require(cp.is_frozen is False, "copy of a frozen network reports frozen")
    ctx.require(nets.same(nets.snap(net), nets.snap(cp)), "copy of a frozen network is not equal to it")
    a = ctx.fresh()
    ctx.info["args"] = {"node": a}
    before = structural(net)
    try:
        cp.add_node(a)
        if p["cls"] == "D":
            cp.add_edge(([a], [a]))
        elif p["cls"] == "S":
            cp.add_simplex([a, ctx.fresh()])
        else:
            cp.add_edge([a])
        ok = True
    except Exception:
        ok = False
    ctx.require(ok, "copy of a frozen network is not editable")
    ctx.require(nets.same(before, structural(net)), "editing the copy changed the frozen original")


def create_using_functions():
    """Every public function with a `create_using` parameter (introspected)."""
    out = {}
    for n in sorted(dir(xgi)):
        f = getattr(xgi, n)
        if n.startswith("_") or not callable(f) or inspect.isclass(f):
            continue
        try:
            sig = inspect.signature(f)
        except (TypeError, ValueError):
            continue
        if "create_using" in sig.parameters:
            out[n] = f
    return out


def _cu_args(ctx, name, f, cls):
    """Positional data for a create_using function; None if no recipe."""
    a, b = ctx.fresh(), ctx.fresh()
    first = list(inspect.signature(f).parameters)[0]
    if first == "create_using":
        return ()
    if name in ("to_hypergraph", "to_simplicial_complex", "from_hyperedge_list"):
        return ([[a, b]],)
    if name == "to_dihypergraph":
        return ([([a], [b])],)
    if name in ("from_hyperedge_dict", "from_simplex_dict"):
        return ({ctx.fresh("i"): [a, b]},)
    if name == "from_incidence_matrix":
        import numpy as np

        return (np.array([[1], [1]]),)
    if name == "from_bipartite_pandas_dataframe":
        import pandas as pd

        return (pd.DataFrame({0: pd.Series([a, b], dtype=object), 1: pd.Series([a, a], dtype=object)}),)
    return None


@harness("C18.create_using")
def create_using(ctx, p):
    """A frozen network handed to a library function as `create_using` must not be
    emptied or filled: the library's error, structure unchanged."""
    net = _frozen_net(ctx, dict(p, via="freeze"))
    f = create_using_functions()[p["f"]]
    ctx.info["op"] = "create_using:" + p["f"]
    args = _cu_args(ctx, p["f"], f, p["cls"])
    if args is None:
        ctx.info["outcome"] = "no recipe"
        return
    before = structural(net)
    try:
        with warnings.catch_warnings():
            warnings.simplefilter("ignore")
            f(*args, create_using=net)
        exc = None
    except Exception as ex:
        exc = ex
    ctx.info["outcome"] = "returned" if exc is None else f"raised {type(exc).__name__}"
    ctx.require(nets.same(before, structural(net)), "a frozen network passed as create_using was structurally modified")
    ctx.require(net.is_frozen is True, "is_frozen is not True after the call")
    # create_using semantics: the instance is cleared and refilled, so on a frozen
    # instance the call must be refused with the library's own error
    ctx.require(exc is not None, "a function given a frozen create_using network returned normally")
    ctx.require(exc is None or isinstance(exc, LIB_ERRORS), "a function given a frozen create_using network raised a foreign error type")


NATURAL = {"H": ("empty_hypergraph", "to_hypergraph", "from_hyperedge_list", "from_hyperedge_dict", "from_incidence_matrix", "from_bipartite_pandas_dataframe"),
           "S": ("empty_simplicial_complex", "to_simplicial_complex", "from_simplex_dict"),
           "D": ("empty_dihypergraph", "to_dihypergraph")}


def spec(tier, seed):
    disc = discover()
    if tier == "quick":
        sh = {"H": shapes.shapes_H_upto(2, 2), "D": shapes.shapes_D_upto(2, 1), "S": shapes.shapes_S_upto(3, (0,))}
    else:
        sh = {"H": shapes.shapes_H_upto(3, 2) + shapes.shapes_H(2, 3), "D": shapes.shapes_D_upto(2, 1) + shapes.shapes_D(1, 2) + shapes.shapes_D(2, 2)[::2], "S": [s for s in shapes.shapes_S_upto(4, (0,)) if s[1] <= 7][:16]}
    units = []
    not_covered = {}
    for cls in "HDS":
        # discovered on this tree, plus the pinned API's mutators that still exist (a change
        # that hides a signature or breaks the probe call must not shrink the alphabet)
        muts = set(disc[cls]["mutators"]) | {m for m in PINNED[cls] if hasattr(CLS[cls], m)}
        via_list = ["freeze"] + (["subhypergraph"] if cls != "D" else [])
        op_names = [o for o in OPS[cls] if method_of(o) in muts]
        covered = {method_of(o) for o in op_names}
        not_covered[cls] = sorted(muts - covered)
        for s in sh[cls]:
            for via in via_list:
                for o in op_names:
                    units.append(("C18.frozen", {"cls": cls, "shape": s, "via": via, "kind": "op", "op": o}))
                for m in sorted(muts):
                    for style in ("keyword", "positional"):
                        units.append(("C18.frozen", {"cls": cls, "shape": s, "via": via, "kind": "generic", "op": m, "style": style}))
                units.append(("C18.copy", {"cls": cls, "shape": s, "via": via}))
            if cls != "D":
                # subhypergraph with an explicit selection: a representative mutator of each kind
                for o in [o for o in ("add_node", "add_edge", "add_simplex", "remove_node") if o in op_names]:
                    units.append(("C18.frozen", {"cls": cls, "shape": s, "via": "subhypergraph_sel", "kind": "op", "op": o}))
                units.append(("C18.copy", {"cls": cls, "shape": s, "via": "subhypergraph_sel"}))
        for fn in create_using_functions():
            if fn not in NATURAL[cls]:
                continue  # class-mismatched create_using is rejected for other reasons
            for s in sh[cls][:6]:
                units.append(("C18.create_using", {"cls": cls, "shape": s, "f": fn, "op": fn, "kind": "create_using"}))

    def post(results):
        return {"coverage": {"discovered_mutators": {c: disc[c]["mutators"] for c in disc},
                             "pinned_mutators_not_rediscovered": {c: sorted(m for m in PINNED[c] if hasattr(CLS[c], m) and m not in disc[c]["mutators"]) for c in disc},
                             "public_callables_without_recipe": {c: disc[c]["unexercised"] for c in disc},
                             "probed_non_mutators": {c: disc[c]["non_mutators"] for c in disc},
                             "mutators_reached_only_by_generic_recipe": not_covered}}

    return {
        "units": units,
        "post": post,
        "caps": {"paths": 100000, "wall": 600},
        "level": "model_checking",
        "bounds": {"shapes": {k: f"{len(v)} shapes" for k, v in sh.items()}, "ids": "unbounded integers",
                   "frozen via": "freeze() and subhypergraph() (Hypergraph, SimplicialComplex); DiHypergraph: freeze() only (subhypergraph does not support it)"},
        "assumptions": ["structural mutators are discovered by concrete probing with name-based recipe arguments; a public callable whose parameters have no recipe is listed in evidence, not silently dropped",
                        "the library's own error = XGIError or IDNotFound"],
        "outside": ["attribute edits (not structural)"],
    }
