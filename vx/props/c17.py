"""C17 A seed fully determines every stochastic result.

Each draw is the uninterpreted value R(stream, position).  The function under
test is called twice in ONE path with the same arguments and the same symbolic
seed but with different ambient streams (= whatever was drawn in between from the
global generators).  Draws made after the function seeded a generator are the
same solver variables in both calls; ambient draws are different variables, so
if any of them can influence the result the solver finds values that make the
two outputs differ."""
import warnings

import networkx as nx
import numpy as np
import xgi

from .. import nets, stubs
from ..runner import harness


def _snap(x):
    if isinstance(x, (xgi.Hypergraph, xgi.DiHypergraph)):
        s = nets.snap(x)
        return {"nodes": s["nodes"], "edges": s["edges"], "members": s["members"]}
    if isinstance(x, dict):
        return {k: (v.tolist() if hasattr(v, "tolist") else v) for k, v in x.items()}
    if isinstance(x, (tuple, list)):
        return [_snap(v) for v in x]
    return x


def _env(ctx):
    py = stubs.StreamRandom(ctx, "py")
    npr = stubs.StreamRandom(ctx, "np")
    mapping = {}
    import importlib

    for m in stubs.GEN_MODULES + ["xgi.drawing.layout"]:
        mod = importlib.import_module(m)
        if "random" in mod.__dict__:
            mapping[(m, "random")] = py
        if "geometric" in mod.__dict__:
            mapping[(m, "geometric")] = py.geometric
        if "np" in mod.__dict__:
            mapping[(m, "np")] = stubs.NPProxy(npr)
    mapping[("xgi.generators.uniform", "int")] = stubs.sint
    consts = stubs.size_constants(ctx, stubs.GEN_MODULES + ["xgi.drawing.layout", "xgi.utils.utilities"])
    mapping.update(consts)
    ctx.info["size_constants"] = sorted(f"{m}.{n}" for m, n in consts)
    return stubs.patched(mapping), py, npr


FORWARD = {}


def _fake_gnp(n, p, seed=None, directed=False):
    FORWARD.setdefault("fast_gnp_random_graph", []).append(seed)
    G = nx.Graph()
    G.add_nodes_from(range(n))
    G.add_edges_from([(0, 1), (1, 2), (0, 2)][: max(0, min(3, n * (n - 1) // 2))])
    return G


def _fake_spring(G, seed=None, **kw):
    FORWARD.setdefault("spring_layout", []).append(seed)
    return {n: np.array([float(i), 0.0]) for i, n in enumerate(G)}


CASES = {
    "fast_random_hypergraph": lambda s: xgi.fast_random_hypergraph(4, [0.5, 0.5], seed=s),
    "random_hypergraph": lambda s: xgi.random_hypergraph(3, [0.5, 0.5], seed=s),
    "uniform_erdos_renyi_hypergraph": lambda s: xgi.uniform_erdos_renyi_hypergraph(4, 2, 0.5, seed=s),
    "uniform_erdos_renyi_hypergraph_multi": lambda s: xgi.uniform_erdos_renyi_hypergraph(2, 2, 0.5, multiedges=True, seed=s),
    "uniform_HSBM": lambda s: xgi.uniform_HSBM(3, 2, np.array([[0.5, 0.5], [0.5, 0.0]]), [1, 2], seed=s),
    "uniform_HPPM": lambda s: xgi.uniform_HPPM(3, 2, 2, 0.9, rho=0.5, seed=s),
    "uniform_hypergraph_configuration_model": lambda s: xgi.uniform_hypergraph_configuration_model({0: 1, 1: 1, 2: 2}, 2, seed=s),
    "uniform_hypergraph_configuration_model_bump": lambda s: xgi.uniform_hypergraph_configuration_model({0: 1, 1: 1, 2: 1}, 2, seed=s),
    "chung_lu_hypergraph": lambda s: xgi.chung_lu_hypergraph({0: 1, 1: 1, 2: 1}, {0: 1, 1: 2}, seed=s),
    "dcsbm_hypergraph": lambda s: xgi.dcsbm_hypergraph({0: 1, 1: 1, 2: 1}, {0: 1, 1: 1, 2: 1}, {0: 0, 1: 0, 2: 1}, {0: 0, 1: 0, 2: 1}, np.array([[1.0, 1.0], [0.0, 1.0]]), seed=s),
    "watts_strogatz_hypergraph": lambda s: xgi.watts_strogatz_hypergraph(4, 2, 2, 1, 0.5, seed=s),
    "random_simplicial_complex": lambda s: xgi.random_simplicial_complex(3, [0.5, 0.5], seed=s),
    "flag_complex": lambda s: xgi.flag_complex(nx.complete_graph(4), max_order=3, ps=[0.5, 0.5], seed=s),
    "flag_complex_d2": lambda s: xgi.flag_complex_d2(nx.complete_graph(4), p2=0.5, seed=s),
    "random_flag_complex_d2": lambda s: xgi.random_flag_complex_d2(3, 0.5, seed=s),
    "random_flag_complex": lambda s: xgi.random_flag_complex(3, 0.5, max_order=2, seed=s),
    "shuffle_hyperedges": lambda s: xgi.shuffle_hyperedges(xgi.Hypergraph([[0, 1], [1, 2], [0, 1, 2]]), 1, 0.5, seed=s),
    "random_layout": lambda s: xgi.random_layout(xgi.Hypergraph([[0, 1], [1, 2]]), seed=s),
    "pairwise_spring_layout": lambda s: xgi.pairwise_spring_layout(xgi.Hypergraph([[0, 1], [1, 2]]), seed=s),
    "bipartite_spring_layout": lambda s: xgi.bipartite_spring_layout(xgi.Hypergraph([[0, 1], [1, 2]]), seed=s),
    "barycenter_spring_layout": lambda s: xgi.barycenter_spring_layout(xgi.Hypergraph([[0, 1], [1, 2, 3]]), seed=s),
    "weighted_barycenter_spring_layout": lambda s: xgi.weighted_barycenter_spring_layout(xgi.Hypergraph([[0, 1], [1, 2, 3]]), seed=s),
}
# cases whose mutable argument is the same object in both calls (an argument modified by the
# first call is a different argument in the second): (make the argument once per path, call)
SHARED = {
    "uniform_hypergraph_configuration_model_sameobj": (lambda: {0: 1, 1: 1, 2: 1}, lambda k, s: xgi.uniform_hypergraph_configuration_model(k, 2, seed=s)),
    "chung_lu_hypergraph_sameobj": (lambda: ({0: 1, 1: 1, 2: 1}, {0: 1, 1: 2}), lambda a, s: xgi.chung_lu_hypergraph(a[0], a[1], seed=s)),
    "shuffle_hyperedges_sameobj": (lambda: xgi.Hypergraph([[0, 1], [1, 2], [0, 1, 2]]), lambda H, s: xgi.shuffle_hyperedges(H, 1, 0.5, seed=s)),
    "flag_complex_sameobj": (lambda: nx.complete_graph(4), lambda G, s: xgi.flag_complex(G, max_order=3, ps=[0.5, 0.5], seed=s)),
}
for _n, (_mk, _call) in SHARED.items():
    CASES[_n] = None
FORWARDED = {"random_flag_complex_d2": "fast_gnp_random_graph", "random_flag_complex": "fast_gnp_random_graph",
             "pairwise_spring_layout": "spring_layout", "bipartite_spring_layout": "spring_layout",
             "barycenter_spring_layout": "spring_layout", "weighted_barycenter_spring_layout": "spring_layout"}


@harness("C17.twice")
def twice(ctx, p):
    name = p["f"]
    f = CASES[name]
    if name in SHARED:
        shared_arg = SHARED[name][0]()
        f = lambda seed_: SHARED[name][1](shared_arg, seed_)
    s = ctx.int("seed", -3, 3) if p.get("seedtype", "int") == "int" else ctx.int("seed", 0, 3)
    if p.get("seedtype") == "np.int64" and not ctx.symbolic:
        s = np.int64(s)  # integer seeds of another type (the symbolic run cannot tell them apart)
    ctx.info["op"] = name
    ctx.info["args"] = {"seed": s, "seedtype": p.get("seedtype", "int")}
    env, py, npr = _env(ctx)
    FORWARD.clear()
    extra = {("networkx", "fast_gnp_random_graph"): _fake_gnp, ("networkx", "spring_layout"): _fake_spring,
             # random_layout imports numpy locally: patch the numpy.random entry points it uses
             ("numpy.random", "seed"): npr.seed, ("numpy.random", "rand"): npr.rand}
    outs = []
    saved_reuse = ctx.reuse
    ctx.reuse = True  # seeded draws of both calls are the same variables
    try:
        with warnings.catch_warnings():
            warnings.simplefilter("ignore")
            with stubs.uninstalled():
                with env, stubs.patched(extra):
                    for k in (1, 2):
                        py.begin_call(k)
                        npr.begin_call(k)
                        try:
                            outs.append(("ok", _snap(f(s))))
                        except Exception as ex:
                            outs.append(("raised", type(ex).__name__))
    finally:
        ctx.reuse = saved_reuse
    ctx.info["ambient_draws"] = py.ambient_draws + npr.ambient_draws
    ctx.info["outcome"] = outs[0][0]
    ctx.require(nets.same(outs[0], outs[1]), "two calls with the same arguments and seed return different results")
    if name in FORWARDED:
        got = FORWARD.get(FORWARDED[name], [])
        ctx.require(len(got) >= 2 and all(nets.same(g, s) for g in got), "the seed is not forwarded to the third-party generator")


def spec(tier, seed):
    units = [("C17.twice", {"f": name, "shape": None, "kind": name}) for name in CASES]
    units += [("C17.twice", {"f": name, "shape": None, "kind": name, "seedtype": "np.int64"}) for name in CASES]
    return {
        "units": units,
        "states_key": "f",
        "caps": {"paths": 200000, "wall": 300 if tier == "quick" else 1500},
        "level": "other",
        "explanation": "Seed determinism decided symbolically for the pure-Python consumers of `random`, `numpy.random` and utils.geometric: each function is executed twice in one path under stubs that name every draw R(stream, position); seeded draws are shared solver variables, ambient draws are fresh ones, the seed is a solver integer in [-3,3] (so falsy seeds are in the space) and z3 searches for draw values that make the two outputs differ. For functions that delegate to networkx (fast_gnp_random_graph, spring_layout) the third-party call is stubbed and only the forwarding of the seed is decided; spectral_clustering (ARPACK start vector, numpy Generator inside k-means on float data) cannot be entered by the stubs and is outside.",
        "bounds": {"functions": sorted(CASES), "seed": "[-3, 3]", "parameters": "one small parameter tuple per function (<= 10 candidate indices)", "geometric": "[1, 6]"},
        "assumptions": ["random / numpy.random / geometric replaced by stream-tagged stubs", "module-level integer constants >= 1000 of the generator/layout modules (size thresholds between two implementations) are solver integers in [0, value], in exploration and in the replay of a counterexample (the unchanged tree has none); a violation found that way is a violation of the real code for inputs above the threshold", "networkx generators and layouts stubbed: only seed forwarding is decided for them"],
        "outside": ["spectral_clustering", "the internals of networkx/scipy random generators"],
    }
