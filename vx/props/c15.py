"""C15 Simpliciality measures match their combinatorial definitions.

The expected values are computed by exhaustive subset enumeration on the
(concrete) incidence shape; the library runs on the same shape with symbolic
orderable labels (the Trie sorts members: every label order is a path), with
members listed in several orders, and - in a second harness - with labels forked
exhaustively over a window under real hashing (negative labels included)."""
import itertools
import math
import warnings

import numpy as np
import xgi

from .. import nets, shapes, stubs
from ..runner import harness


def _shape(s):
    return (s[0], s[1], tuple(tuple(e) for e in s[2]))


def oracle(shape, min_size, excl, normalize=True):
    N, M, edges = shape
    E = [frozenset(e) for e in edges]
    Eset = set(E)
    big = [e for e in E if len(e) >= min_size]
    maximal = [e for e in E if not any(e < f for f in E)]
    maxel = [e for e in maximal if len(e) >= min_size + excl]
    out = {}
    # simplicial edit distance
    if not maxel:
        out["sed_raw"] = out["sed"] = float("nan")
    else:
        missing = set()
        for m in maxel:
            for k in range(min_size, len(m)):
                for sub in itertools.combinations(sorted(m), k):
                    if frozenset(sub) not in Eset:
                        missing.add(frozenset(sub))
        ms = len(missing)
        out["sed_raw"] = ms
        den = len(big) - len(maxel) + ms
        out["sed"] = ms / den if den > 0 else float("nan")
    # mean face edit distance
    tot = 0.0
    for m in maxel:
        d = 0
        for k in range(min_size, len(m)):
            for sub in itertools.combinations(sorted(m), k):
                if frozenset(sub) not in Eset:
                    d += 1
        mx = 2 ** len(m) - 2 - sum(math.comb(len(m), i) for i in range(1, min_size))
        if normalize and mx != 0:
            d = d / mx
        tot += d / len(maxel)
    out["mfed"] = tot
    # simplicial fraction
    elig = [e for e in E if len(e) >= min_size + excl]
    if not elig:
        out["sf"] = float("nan")
    else:
        ns = 0
        for e in elig:
            ok = all(frozenset(sub) in Eset for k in range(min_size, len(e) + 1) for sub in itertools.combinations(sorted(e), k))
            ns += 1 if ok else 0
        out["sf"] = ns / len(elig)
    return out


def _same(a, b):
    a, b = float(a), float(b)
    if math.isnan(a) or math.isnan(b):
        return math.isnan(a) and math.isnan(b)
    return abs(a - b) < 1e-9


def _check(ctx, H, shape, min_size, excl, closed):
    exp = oracle(shape, min_size, excl)
    with warnings.catch_warnings():
        warnings.simplefilter("ignore")
        got = {
            "sed": xgi.simplicial_edit_distance(H, min_size, excl),
            "sed_raw": xgi.simplicial_edit_distance(H, min_size, excl, normalize=False),
            "mfed": xgi.mean_face_edit_distance(H, min_size, excl),
            "sf": xgi.simplicial_fraction(H, min_size, excl),
            "es": xgi.edit_simpliciality(H, min_size, excl),
            "fes": xgi.face_edit_simpliciality(H, min_size, excl),
        }
    ctx.require(_same(got["sed_raw"], exp["sed_raw"]), "simplicial edit distance differs from the number of missing node sets inside maximal edges")
    ctx.require(_same(got["sed"], exp["sed"]), "normalised simplicial edit distance differs from its definition")
    ctx.require(_same(got["mfed"], exp["mfed"]), "mean face edit distance differs from the average missing-subface share")
    ctx.require(_same(got["sf"], exp["sf"]), "simplicial fraction differs from the share of eligible edges whose eligible subsets are all edges")
    ctx.require(_same(got["es"], 1 - exp["sed"]) and _same(got["fes"], 1 - exp["mfed"]), "a simpliciality score is not one minus its distance")
    for k in ("es", "fes", "sf"):
        v = float(got[k])
        ctx.require(math.isnan(v) or -1e-12 <= v <= 1 + 1e-12, "a simpliciality score lies outside [0, 1]")
    if closed and min_size == 2:
        for k in ("es", "fes", "sf"):
            v = float(got[k])
            ctx.require(math.isnan(v) or abs(v - 1) < 1e-9, "a simpliciality score is not 1 on a downward-closed hypergraph")


def _is_closed(shape):
    E = {frozenset(e) for e in shape[2]}
    return all(frozenset(sub) in E for e in E for k in range(2, len(e)) for sub in itertools.combinations(sorted(e), k))


def _build(H, labels, ids, edges, orders):
    for n in labels:
        H._node[n] = set()
        H._node_attr[n] = {}
    for j, e in enumerate(edges):
        mem = [labels[i] for i in e]
        if orders[j % len(orders)]:
            mem.reverse()
        H._edge[ids[j]] = set(mem)
        H._edge_attr[ids[j]] = {}
        for n in mem:
            H._node[n].add(ids[j])


@harness("C15.sym", raises_are_violations=True)
def sym(ctx, p):
    shape = _shape(p["shape"])
    N, M, edges = shape
    nl = [ctx.label(f"n{i}", group="n") for i in range(N)]
    el = [ctx.label(f"e{j}", group="e") for j in range(M)]
    ctx.distinct(nl)
    ctx.distinct(el)
    H = xgi.Hypergraph()
    _build(H, nl, el, edges, p["orders"])
    H._edge_uid = ctx.counter(0)
    min_size = 1 + ctx.choose("min_size", 4)
    excl = ctx.flag("exclude_min_size")
    ctx.info["op"] = "simpliciality"
    ctx.info["args"] = {"min_size": min_size, "exclude_min_size": excl, "labels": nl}
    _check(ctx, H, shape, min_size, excl, _is_closed(shape))


@harness("C15.hash", raises_are_violations=True)
def hashed(ctx, p):
    """Real hashing: labels are forked exhaustively over a window with negatives."""
    shape = _shape(p["shape"])
    N, M, edges = shape
    labs = [ctx.int(f"n{i}", -3, 3) for i in range(N)]
    ctx.assume(*[labs[i] != labs[j] for i in range(N) for j in range(i)])
    labs = [x.__index__() for x in labs]
    with stubs.uninstalled():
        H = xgi.Hypergraph()
        H.add_nodes_from(labs)
        for j, e in enumerate(edges):
            mem = [labs[i] for i in e]
            if p.get("mixed_types"):
                # the same node named by equal objects of different numeric types
                mem = [(np.int64(v) if (k + j) % 2 else (float(v) if (k + j) % 3 == 0 and p["mixed_types"] > 1 else v)) for k, v in enumerate(mem)]
            if p["orders"][j % len(p["orders"])]:
                mem.reverse()
            H.add_edge(mem, idx=j)
        min_size = p["min_size"]
        ctx.info["op"] = "simpliciality (real hashing)"
        ctx.info["args"] = {"labels": labs, "min_size": min_size}
        _check(ctx, H, shape, min_size, True, _is_closed(shape))


@harness("C15.history", raises_are_violations=True)
def history(ctx, p):
    """The measures are computed from the CURRENT structure: measure, replace one
    edge on the same object (node and edge counts unchanged), measure again."""
    s1, s2 = _shape(p["shape"]), _shape(p["shape2"])
    N, M, edges = s1
    nl = [ctx.label(f"n{i}", group="n") for i in range(N)]
    el = [ctx.label(f"e{j}", group="e") for j in range(M)]
    ctx.distinct(nl)
    ctx.distinct(el)
    H = xgi.Hypergraph()
    _build(H, nl, el, edges, [0])
    H._edge_uid = ctx.counter(0)
    min_size = 1 + ctx.choose("min_size", 3)
    ctx.info["op"] = "simpliciality after an edit"
    ctx.info["args"] = {"min_size": min_size, "first": p["first"], "how": p["how"]}
    with warnings.catch_warnings():
        warnings.simplefilter("ignore")
        # any one of the measures may have been asked for before the edit
        first = {"sed": xgi.simplicial_edit_distance, "mfed": xgi.mean_face_edit_distance, "sf": xgi.simplicial_fraction,
                 "es": xgi.edit_simpliciality, "fes": xgi.face_edit_simpliciality}[p["first"]]
        first(H, min_size, True)
        j = p["j"]
        new = [nl[i] for i in s2[2][j]]
        if p["how"] == "replace":
            H.remove_edge(el[j])
            H.add_edge(new, idx=el[j])
        else:  # member-wise
            for n in list(H._edge[el[j]]):
                if not any(nets.same(n, x) for x in new):
                    H.remove_node_from_edge(el[j], n)
            for n in new:
                H.add_node_to_edge(el[j], n)
    # the edge order of s2 is s1's with edge j possibly moved to the end: the oracle works on sets
    _check(ctx, H, s2, min_size, True, _is_closed(s2))


def _edits(s, ok):
    """(j, s2): every replacement of one edge by another non-empty node set keeping the shape admissible."""
    N, M, edges = _shape(s)
    out = []
    for j in range(M):
        for k in range(1, N + 1):
            for sub in itertools.combinations(range(N), k):
                if tuple(sub) == tuple(sorted(edges[j])):
                    continue
                e2 = list(edges)
                e2[j] = tuple(sub)
                s2 = (N, M, tuple(e2))
                if ok(s2):
                    out.append((j, s2))
    return out


def spec(tier, seed):
    def ok(s):
        es = [frozenset(e) for e in s[2]]
        return len(set(es)) == len(es) and all(len(e) > 0 for e in es) and s[1] > 0
    if tier == "quick":
        shp = [s for s in shapes.shapes_H_upto(4, 3) if ok(s)]
        hsh = [s for s in shapes.shapes_H(3, 2) + shapes.shapes_H(3, 3) if ok(s) and max(len(e) for e in s[2]) >= 3]
    else:
        shp = [s for s in shapes.shapes_H_upto(4, 4) + shapes.shapes_H(5, 3) if ok(s)]
        hsh = [s for s in shapes.shapes_H_upto(4, 3) if ok(s) and max(len(e) for e in s[2]) >= 3]
    units = []
    for s in shp:
        for orders in ([0], [0, 1]):
            units.append(("C15.sym", {"shape": s, "orders": orders}))
    for s in hsh:
        for orders in ([0], [0, 1], [1, 0]):
            units.append(("C15.hash", {"shape": s, "orders": orders, "min_size": 2}))
    for s in hsh:
        units.append(("C15.hash", {"shape": s, "orders": [0, 1], "min_size": 2, "mixed_types": 1}))
        units.append(("C15.hash", {"shape": s, "orders": [0], "min_size": 2, "mixed_types": 2}))
    hist = [s for s in (shapes.shapes_H(3, 2) + shapes.shapes_H(3, 3) if tier == "quick" else shapes.shapes_H(3, 3) + shapes.shapes_H(4, 3)) if ok(s) and max(len(e) for e in s[2]) >= 3]
    firsts = ["sed", "mfed", "sf", "es", "fes"]
    k = 0
    for s in hist:
        for j, s2 in _edits(s, ok):
            k += 1
            units.append(("C15.history", {"shape": s, "shape2": s2, "j": j, "first": firsts[k % 5], "how": "replace" if k % 2 else "memberwise"}))
    return {
        "units": units,
        "caps": {"paths": 100000, "wall": 900},
        "level": "model_checking",
        "bounds": {"shapes": f"{len(shp)} hypergraph shapes without repeated or empty edges (N<=4, M<=3 quick); closed shapes among them give the '= 1' clause",
                   "labels": "unbounded orderable integers (every label order through the Trie's sort); second harness: labels in [-3,3] exhaustively under real hashing",
                   "parameters": "min_size in 1..4, exclude_min_size both, normalize both; member listing orders: as given / alternately reversed",
                   "histories": "measure, replace one edge on the same object (same node and edge counts), measure again; equal labels of different numeric types (int / numpy.int64 / float) in the real-hashing harness"},
        "assumptions": ["oracle: exhaustive subset enumeration on the concrete incidence shape", "floats compared with tolerance 1e-9"],
        "outside": ["hypergraphs with repeated edges (the property excludes them)", "non-orderable label mixes"],
    }
