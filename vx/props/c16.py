"""C16 Generators deliver the structure their parameters promise.

The RNG is a nondeterministic stub: geometric() returns any integer >= 1,
random() any real in [0,1), sample() any sub-selection.  The skip-sampling loops
then explore every subset of candidate indices as paths.  Index decoders are
decided with a symbolic index."""
import itertools
import warnings

import networkx as nx
import numpy as np
import xgi
from scipy.special import comb

from .. import nets, stubs
from ..runner import harness
from .c03 import inv_S


def _run(ctx, f):
    """Call a generator under the RNG stubs against the library with the core
    stubs removed (all ids are raw ints here)."""
    env, r, nr = stubs.rng_env(ctx)
    with warnings.catch_warnings():
        warnings.simplefilter("ignore")
        with stubs.uninstalled():
            with env:
                return f()


def _conc(x):
    return x.__index__() if hasattr(x, "__index__") else x


def edges_of(H):
    return [set(_conc(x) for x in m) for m in H._edge.values()]


def has_repeat(es):
    return any(es[i] == es[j] for i in range(len(es)) for j in range(i))


def basic(ctx, H, n, name):
    ctx.require(list(H._node) == list(range(n)), f"{name}: node set is not exactly range(n)")
    ctx.require(all(all(x in H._node for x in e) for e in edges_of(H)), f"{name}: an edge contains a non-node")
    ctx.require(not nets.inv_H(H), f"{name}: incidence invariant broken")


# ---------------------------------------------------------------------------
# decoders
# ---------------------------------------------------------------------------
@harness("C16.decode")
def decode(ctx, p):
    from xgi.generators import uniform as U

    kind = p["kind"]
    ctx.info["op"] = "_index_to_edge_" + kind
    with warnings.catch_warnings():
        warnings.simplefilter("ignore")
        with stubs.patched({("xgi.generators.uniform", "int"): stubs.sint}):
            if kind == "comb":
                n, m = p["n"], p["m"]
                total = comb(n, m, exact=True)
                i = ctx.int("i", 0, total - 1)
                j = ctx.int("j", 0, total - 1)
                a = U._index_to_edge_comb(i, n, m)
                b = U._index_to_edge_comb(j, n, m)
                ctx.info["args"] = {"i": i, "j": j, "n": n, "m": m}
                ctx.require(len(a) == m and all(0 <= x < n for x in a), "comb decoding out of range")
                ctx.require(all(a[k] < a[k + 1] for k in range(m - 1)), "comb decoding not strictly increasing")
                if a == b:
                    ctx.require(i == j, "comb decoding is not injective")
                else:
                    ctx.require(i != j, "comb decoding is not a function")
            elif kind == "prod":
                n, m = p["n"], p["m"]
                i = ctx.int("i", 0, n**m - 1)
                j = ctx.int("j", 0, n**m - 1)
                a = U._index_to_edge_prod(i, n, m)
                b = U._index_to_edge_prod(j, n, m)
                ctx.info["args"] = {"i": i, "j": j, "n": n, "m": m}
                ok = True
                for x in a:
                    ok = ok & (0 <= x) & (x < n)
                ctx.require(ok if len(a) == m else False, "prod decoding out of range")
                same = True
                for x, y in zip(a, b):
                    same = same & (x == y)
                ctx.require((~same) | (i == j) if not isinstance(same, bool) else ((not same) or bool(i == j)), "prod decoding is not injective")
            else:
                sizes = p["sizes"]
                m = len(sizes)
                total = int(np.prod(sizes))
                i = ctx.int("i", 0, total - 1)
                j = ctx.int("j", 0, total - 1)
                a = U._index_to_edge_partition(i, sizes, m)
                b = U._index_to_edge_partition(j, sizes, m)
                ctx.info["args"] = {"i": i, "j": j, "sizes": sizes}
                ok = True
                for x, s in zip(a, sizes):
                    ok = ok & (0 <= x) & (x < s)
                ctx.require(ok if len(a) == m else False, "partition decoding out of range")
                same = True
                for x, y in zip(a, b):
                    same = same & (x == y)
                ctx.require((~same) | (i == j) if not isinstance(same, bool) else ((not same) or bool(i == j)), "partition decoding is not injective")


# ---------------------------------------------------------------------------
# whole generators
# ---------------------------------------------------------------------------
@harness("C16.gen")
def gen(ctx, p):
    g = p["gen"]
    ctx.info["op"] = g
    ctx.info["args"] = {k: v for k, v in p.items() if k not in ("gen", "shape")}
    try:
        _gen_body(ctx, p, g)
    except Exception as ex:
        # every parameter tuple of the grid is admissible: a generator that raises violates
        # "probability 0 / 1 ... without error" and the structural promises alike
        ctx.require(False, f"{g}: raised {type(ex).__name__} for admissible parameters")


def _gen_body(ctx, p, g):
    if g in ("fast_random_hypergraph", "random_hypergraph"):
        n, ps = p["n"], p["ps"]
        f = getattr(xgi, g)
        if "order" in p:
            # the order= keyword: an int with a float probability, or a list in any sequence
            od = p["order"]
            if isinstance(od, int):
                H = _run(ctx, lambda: f(n, float(ps[0]), order=od))
                orders = [od]
            else:
                wrap = np.array if p.get("as_array") else list
                H = _run(ctx, lambda: f(n, wrap(ps), order=wrap(od)))
                orders = list(od)
            ctx.info["args"] = {"order": od, "ps": ps}
        else:
            H = _run(ctx, lambda: f(n, list(ps)))
            orders = [d + 1 for d in range(len(ps))]
        basic(ctx, H, n, g)
        es = edges_of(H)
        allowed = {o + 1 for o in orders}
        ctx.require(all(len(e) in allowed for e in es), f"{g}: an edge has a size that is not allowed")
        ctx.require(not has_repeat(es), f"{g}: repeated edge")
        for o, pr in zip(orders, ps):
            k = len([e for e in es if len(e) == o + 1])
            if pr == 0:
                ctx.require(k == 0, f"{g}: p=0 produced edges of that order")
            if pr == 1:
                ctx.require(k == comb(n, o + 1, exact=True), f"{g}: p=1 did not produce all edges of that order")
        if "order" not in p and sum(1 for pr in ps if 0 < pr < 1) == 1 and all(pr in (0, 0.5) for pr in ps):
            ctx.info["outcome"] = "config:" + "|".join(sorted("-".join(map(str, sorted(e))) for e in es))
    elif g == "uniform_erdos_renyi_hypergraph":
        n, m, pr = p["n"], p["m"], p["p"]
        H = _run(ctx, lambda: xgi.uniform_erdos_renyi_hypergraph(n, m, pr, p_type=p["p_type"], multiedges=p["multiedges"]))
        basic(ctx, H, n, g)
        es = edges_of(H)
        ctx.require(all(len(e) == m for e in es), f"{g}: an edge does not have exactly m nodes")
        if not p["multiedges"]:
            ctx.require(not has_repeat(es), f"{g}: repeated edge although multiedges=False")
        q = pr if p["p_type"] == "prob" else None
        if q == 0:
            ctx.require(len(es) == 0, f"{g}: p=0 produced edges")
        if q == 1 and not p["multiedges"]:
            ctx.require(len(es) == comb(n, m, exact=True), f"{g}: p=1 did not produce every m-subset exactly once")
        if q == 1 and p["multiedges"]:
            ctx.require(all(set(c) in es for c in itertools.combinations(range(n), m)), f"{g}: p=1 with multiedges did not produce every m-set of distinct nodes")
        if q is not None and 0 < q < 1:
            # which candidates were produced on this path (completeness is checked across paths)
            ctx.info["outcome"] = "config:" + "|".join(sorted("-".join(map(str, sorted(e))) for e in es))
    elif g == "uniform_HSBM":
        n, m, sizes = p["n"], p["m"], p["sizes"]
        P = np.array(p["p"], dtype=float)
        try:
            H = _run(ctx, lambda: xgi.uniform_HSBM(n, m, P, sizes))
        except Exception as ex:
            ctx.require(False, f"{g}: raised {type(ex).__name__} for admissible parameters")
            return
        basic(ctx, H, n, g)
        es = edges_of(H)
        ctx.require(all(len(e) == m for e in es), f"{g}: an edge does not have exactly m nodes")
        bounds = np.cumsum([0] + list(sizes))
        block_of = {v: b for b in range(len(sizes)) for v in range(bounds[b], bounds[b + 1])}
        for blk in itertools.product(range(len(sizes)), repeat=m):
            # ordered index tuples with pairwise distinct entries drawn from the blocks
            cands = [t for t in itertools.product(*[range(bounds[b], bounds[b + 1]) for b in blk]) if len(set(t)) == m]
            got = [e for e in es if any(set(t) == e for t in cands)]
            if P[blk] == 0 and all(P[b2] == 0 for b2 in itertools.permutations(blk)):
                ctx.require(len(got) == 0, f"{g}: p=0 produced edges in that block")
            if P[blk] == 1:
                ctx.require(all(any(set(t) == e for e in es) for t in cands), f"{g}: p=1 did not produce all edges of that block")
    elif g == "uniform_hypergraph_configuration_model":
        k = {int(a): int(b) for a, b in p["k"].items()}
        m = p["m"]
        k0 = dict(k)
        H = _run(ctx, lambda: xgi.uniform_hypergraph_configuration_model(k, m))
        ctx.require(list(H._node) == list(k0), f"{g}: node set differs from the keys of k")
        es = edges_of(H)
        ctx.require(all(len(e) == m for e in es), f"{g}: an edge does not have exactly m nodes")
        # the documented completion of a non-realizable sequence raises the degree of
        # (m - remainder) distinct nodes by one; the caller's dictionary is left alone
        rem = sum(k0.values()) % m
        bump = (m - rem) if rem else 0
        over = [v for v in k0 if len(H._node[v]) > k0[v]]
        ctx.require(all(len(H._node[v]) <= k0[v] + 1 for v in k0) and len(over) <= bump, f"{g}: a degree exceeds the prescribed (possibly bumped) degree")
        ctx.require(k == k0, f"{g}: the degree dictionary given by the caller was modified")
        ctx.require(not nets.inv_H(H), f"{g}: incidence invariant broken")
    elif g in ("chung_lu_hypergraph", "dcsbm_hypergraph"):
        k1 = {int(a): b for a, b in p["k1"].items()}
        k2 = {int(a): b for a, b in p["k2"].items()}
        if g == "chung_lu_hypergraph":
            H = _run(ctx, lambda: xgi.chung_lu_hypergraph(k1, k2))
        else:
            g1 = {int(a): b for a, b in p["g1"].items()}
            g2 = {int(a): b for a, b in p["g2"].items()}
            H = _run(ctx, lambda: xgi.dcsbm_hypergraph(k1, k2, g1, g2, np.array(p["omega"], dtype=float)))
        ctx.require(set(H._node) == set(k1), f"{g}: node set differs from the keys of k1")
        ctx.require(all(e in k2 for e in H._edge), f"{g}: an edge label is not a key of k2")
        ctx.require(all(all(x in H._node for x in e) for e in edges_of(H)), f"{g}: an edge contains a non-node")
        ctx.require(not nets.inv_H(H), f"{g}: incidence invariant broken")
    elif g == "watts_strogatz_hypergraph":
        n, d, k, l = p["n"], p["d"], p["k"], p["l"]
        pr = ctx.real("p", 0, 1)
        H = _run(ctx, lambda: xgi.watts_strogatz_hypergraph(n, d, k, l, pr))
        ctx.require(set(H._node) == set(range(n)) and len(H._node) == n, f"{g}: node set is not range(n)")
        ctx.require(all(all(x in H._node for x in e) for e in edges_of(H)), f"{g}: an edge contains a non-node")
        es = edges_of(H)
        ctx.require(all(len(e) == d for e in es), f"{g}: an edge does not have exactly d nodes (the model is d-uniform)")
        ctx.require(len(es) == n * (k // 2), f"{g}: rewiring changed the number of edges")
        ctx.require(not nets.inv_H(H), f"{g}: incidence invariant broken")
    elif g == "complete_hypergraph":
        n = p["n"]
        kw = p["kw"]
        H = _run(ctx, lambda: xgi.complete_hypergraph(n, **kw))
        basic(ctx, H, n, g)
        es = edges_of(H)
        if "order" in kw:
            sizes = [kw["order"] + 1]
        else:
            sizes = list(range(1 if kw.get("include_singletons") else 2, kw["max_order"] + 2))
        want = [set(c) for s in sizes for c in itertools.combinations(range(n), s)]
        ctx.require(len(es) == len(want) and all(w in es for w in want), f"{g}: does not contain each admissible node set exactly once")
    elif g == "random_simplicial_complex":
        n, ps = p["n"], p["ps"]
        S = _run(ctx, lambda: xgi.random_simplicial_complex(n, list(ps)))
        ctx.require(list(S._node) == list(range(n)), f"{g}: node set is not exactly range(n)")
        ctx.require(not inv_S(S) and not nets.inv_H(S), f"{g}: result is not a downward-closed duplicate-free complex")
        for d, pr in enumerate(ps):
            k = len([e for e in S._edge.values() if len(e) == d + 2])
            if pr == 1:
                ctx.require(k == comb(n, d + 2, exact=True), f"{g}: p=1 did not produce all simplices of that order")
            if pr == 0 and all(q == 0 for q in ps[d:]):
                ctx.require(k == 0, f"{g}: p=0 (and above) produced simplices of that order")
    elif g in ("random_flag_complex", "random_flag_complex_d2"):
        n, pr = p["n"], p["p"]
        if g == "random_flag_complex":
            S = _run(ctx, lambda: xgi.random_flag_complex(n, pr, max_order=p["max_order"], seed=p["seed"]))
            mo = p["max_order"]
        else:
            S = _run(ctx, lambda: xgi.random_flag_complex_d2(n, pr, seed=p["seed"]))
            mo = 2
        ctx.require(list(S._node) == list(range(n)), f"{g}: node set is not exactly range(n)")
        ctx.require(not inv_S(S) and not nets.inv_H(S), f"{g}: result is not a downward-closed duplicate-free complex")
        vals = [set(m) for m in S._edge.values()]
        G = nx.Graph()
        G.add_nodes_from(range(n))
        G.add_edges_from(tuple(v) for v in vals if len(v) == 2)
        cliques = [set(c) for c in nx.enumerate_all_cliques(G) if 2 <= len(c) <= mo + 1]
        ctx.require(all(v in cliques for v in vals) and all(c in vals for c in cliques), f"{g}: not exactly the cliques of its 1-skeleton up to max_order")
        if pr == 0:
            ctx.require(len(vals) == 0, f"{g}: p=0 produced simplices")
        if pr == 1:
            ctx.require(len([v for v in vals if len(v) == 2]) == comb(n, 2, exact=True), f"{g}: p=1 did not produce the complete graph")
    elif g == "shuffle_hyperedges":
        H0 = xgi.Hypergraph()
        H0.add_nodes_from(range(p["n"]))
        for e in p["edges"]:
            H0.add_edge(e)
        R = _run(ctx, lambda: xgi.shuffle_hyperedges(H0, p["order"], p["p"]))
        ctx.require(list(R._node) == list(range(p["n"])), f"{g}: node set changed")
        ctx.require(sorted(len(m) for m in R._edge.values()) == sorted(len(e) for e in p["edges"]), f"{g}: the edge sizes changed")
        ctx.require(all(all(x in R._node for x in m) for m in R._edge.values()) and not nets.inv_H(R), f"{g}: an edge contains a non-node or the incidence invariant is broken")
        ctx.require([set(m) for m in H0._edge.values()] == [set(e) for e in p["edges"]], f"{g}: changed its input")
    elif g == "empty_into_used":
        mk = {"H": lambda: xgi.complete_hypergraph(4, order=1), "S": lambda: xgi.SimplicialComplex([[0, 1, 2], [2, 3]]),
              "D": lambda: xgi.DiHypergraph([([0, 1], [2]), ([2], [3])])}[p["cls"]]
        used = _run(ctx, mk)
        used["name"] = "old"
        f = getattr(xgi, p["f"])
        R = _run(ctx, (lambda: f(p["n"], create_using=used)) if p["f"] == "trivial_hypergraph" else (lambda: f(create_using=used)))
        want_nodes = list(range(p["n"])) if p["f"] == "trivial_hypergraph" else []
        ctx.require(R is used, f"{p['f']}: create_using instance not returned")
        ctx.require(list(R._node) == want_nodes and len(R._edge) == 0, f"{p['f']}: a populated create_using instance was not emptied first (node set / edges differ from the request)")
        ctx.require(not nets.inv_H(R) if p["cls"] != "D" else not nets.inv_D(R), f"{p['f']}: incidence invariant broken")
    elif g == "flag_complex_history":
        G = nx.Graph()
        G.add_nodes_from(range(p["n"]))
        G.add_edges_from(p["links"])
        mo = p["max_order"]
        f = (lambda: xgi.flag_complex(G, max_order=mo)) if p["which"] == "flag_complex" else (lambda: xgi.flag_complex_d2(G))
        _run(ctx, f)
        if p["edit"] == "add":
            missing = [c for c in itertools.combinations(range(p["n"]), 2) if not G.has_edge(*c)]
            if not missing:
                ctx.assume(False)
            G.add_edge(*missing[ctx.choose("which_link", len(missing))])
        else:
            links = list(G.edges)
            if not links:
                ctx.assume(False)
            G.remove_edge(*links[ctx.choose("which_link", len(links))])
        S = _run(ctx, f)
        vals = [set(m) for m in S._edge.values()]
        cliques = [set(c) for c in nx.enumerate_all_cliques(G) if 2 <= len(c) <= mo + 1]
        ctx.require(all(v in cliques for v in vals) and all(c in vals for c in cliques), "flag complex of a graph that was modified after an earlier call does not contain exactly its cliques")
    elif g in ("flag_complex", "flag_complex_d2"):
        G = nx.Graph()
        G.add_nodes_from(range(p["n"]))
        links = [tuple(l) for l in p["links"]]
        lo = p.get("link_order", "sorted")
        if lo == "reversed":
            links = [(b, a) for a, b in reversed(links)]
        elif lo == "rotated":
            links = links[1:] + links[:1]
        G.add_edges_from(links)
        if g == "flag_complex":
            S = _run(ctx, lambda: xgi.flag_complex(G, max_order=p["max_order"], ps=p["ps"]))
            mo = p["max_order"]
            probs = p["ps"]
        else:
            S = _run(ctx, lambda: xgi.flag_complex_d2(G, p2=p["p2"]))
            mo = 2
            probs = None if p["p2"] is None else [p["p2"]]
        ctx.require(list(S._node) == list(range(p["n"])), f"{g}: node set differs from the graph's")
        ctx.require(not inv_S(S) and not nets.inv_H(S), f"{g}: result is not a downward-closed duplicate-free complex")
        vals = [set(m) for m in S._edge.values()]
        cliques = [set(c) for c in nx.enumerate_all_cliques(G) if 2 <= len(c) <= mo + 1]
        ctx.require(all(v in cliques for v in vals), f"{g}: contains a simplex that is not a clique of the graph (up to max_order)")
        ctx.require(all(set(l) in vals for l in G.edges), f"{g}: a link of the graph is missing")
        for size in range(3, mo + 2):
            pr = 1 if not probs else (probs[size - 3] if size - 3 < len(probs) else None)
            if pr is None:
                continue
            cs = [c for c in cliques if len(c) == size]
            if pr == 1:
                ctx.require(all(c in vals for c in cs), f"{g}: probability 1 (or none given) did not fill every clique of that order")
            if pr == 0 and all(q == 0 for q in (probs[size - 3:] if probs else [])):
                ctx.require(not any(c in vals for c in cs), f"{g}: probability 0 filled a clique of that order")


def crosshair_post(results):
    """Second engine for the decoders: CrossHair (its own z3 encoding of the real
    functions) must confirm the contracts of vx/ch/decoders.py over all paths."""
    import os
    import re
    import subprocess
    import sys
    import time

    root = os.path.dirname(os.path.dirname(os.path.dirname(os.path.abspath(__file__))))
    t0 = time.time()
    p = subprocess.run([sys.executable, "-m", "crosshair", "check", "--report_all", "--per_condition_timeout", "120", "vx/ch/decoders.py"],
                       cwd=root, capture_output=True, text=True, env=dict(os.environ, PYTHONPATH=root), timeout=1200)
    out = p.stdout + p.stderr
    confirmed = len(re.findall(r"info: Confirmed over all paths", out))
    viol, problems = [], []
    for m in re.finditer(r"error: (?:false|False)[^\n]*when calling (\w+)\(([^)]*)\)", out):
        fn, args = m.group(1), m.group(2)
        try:
            kv = dict((a.split("=")[0].strip(), int(a.split("=")[1])) for a in args.split(","))
            from ..ch import decoders

            holds = bool(getattr(decoders, fn)(**kv))
        except Exception as ex:
            problems.append(f"crosshair counterexample for {fn}({args}) could not be replayed: {ex!r}")
            continue
        if not holds:
            viol.append({"harness": "C16.crosshair", "params": {"contract": fn, "shape": None}, "clause": "decoder contract (range + injectivity) refuted by CrossHair",
                         "model": kv, "info": {"args": kv},
                         "replay_py": f"def replay():\n    from vx.ch import decoders\n    return not decoders.{fn}(**{kv!r})\n"})
        else:
            problems.append(f"crosshair counterexample for {fn}({args}) did not reproduce")
    expected = 4
    if not viol and confirmed != expected:
        problems.append(f"CrossHair confirmed {confirmed} of {expected} decoder contracts: {out.strip()[-400:]}")
    return {"violations": viol, "problems": problems,
            "coverage": {"crosshair": {"contracts": expected, "confirmed_over_all_paths": confirmed, "seconds": round(time.time() - t0, 1),
                                       "cmd": "python -m crosshair check --report_all --per_condition_timeout 120 vx/ch/decoders.py"}}}


def completeness_replay(pr):
    """Concrete confirmation of a completeness failure: for every subset S of the
    candidate indices, script geometric() so that the skip sampler lands exactly on
    S and run the real generator; returns the first S it cannot produce (or None)."""
    import importlib

    if pr["gen"] == "uniform_erdos_renyi_hypergraph":
        cands = pr["n"] if pr["multiedges"] else comb(pr["n"], pr["m"], exact=True)
        call = lambda: xgi.uniform_erdos_renyi_hypergraph(pr["n"], pr["m"], pr["p"], p_type="prob", multiedges=pr["multiedges"])
        mods = ["xgi.generators.uniform"]
    else:
        d = [i for i, q in enumerate(pr["ps"]) if 0 < q < 1][0]
        cands = comb(pr["n"], d + 2, exact=True)
        call = lambda: xgi.fast_random_hypergraph(pr["n"], list(pr["ps"]))
        mods = ["xgi.generators.random"]
    for mask in range(2 ** cands):
        S = [i for i in range(cands) if (mask >> i) & 1]
        draws = []
        prev = -1
        for i in S:
            draws.append(i - prev if prev >= 0 else i + 1)
            prev = i
        draws.append(cands + 5)
        it = iter(draws)
        with stubs.patched({(m, "geometric"): (lambda q, it=it: next(it)) for m in mods}):
            with warnings.catch_warnings():
                warnings.simplefilter("ignore")
                H = call()
        if H.num_edges != len(S):
            return S
    return None


def completeness_post(results):
    """Skip sampling must be able to produce EVERY subset of the candidates when
    0 < p < 1: the configurations seen across all paths of a unit are counted."""
    problems, viol = [], []
    checked = 0
    for r in results:
        pr = r["params"]
        cfgs = [k for k in r["outcomes"] if k.startswith("config:")]
        if not cfgs or r["capped"] or r["error"]:
            continue
        if pr.get("gen") == "uniform_erdos_renyi_hypergraph" and not pr["multiedges"] and pr["p_type"] == "prob":
            cands = comb(pr["n"], pr["m"], exact=True)
        elif pr.get("gen") == "uniform_erdos_renyi_hypergraph" and pr["multiedges"] and pr["m"] == 1:
            cands = pr["n"]
        elif pr.get("gen") == "fast_random_hypergraph":
            d = [i for i, q in enumerate(pr["ps"]) if 0 < q < 1][0]
            cands = comb(pr["n"], d + 2, exact=True)
        else:
            continue
        checked += 1
        if len(cfgs) != 2 ** cands:
            with stubs.uninstalled():
                bad = completeness_replay(pr)
            if bad is None:
                problems.append(f"completeness: {len(cfgs)} of {2 ** cands} configurations seen for {pr} but the concrete replay produced them all")
                continue
            viol.append({"harness": "C16.gen", "params": pr, "clause": "skip sampling cannot produce every subset of the candidate edges",
                         "model": {"index_subset": bad}, "info": {"args": {"distinct_configurations": len(cfgs), "expected": 2 ** cands, "unreachable_index_subset": bad}},
                         "replay_py": "def replay():\n    from vx.props.c16 import completeness_replay\n    return completeness_replay(" + repr(pr) + ") is not None\n"})
    return {"violations": viol, "problems": problems, "coverage": {"completeness_units": checked}}


def post_all(results):
    a = completeness_post(results)
    b = crosshair_post(results)
    return {"violations": a["violations"] + b["violations"], "problems": a["problems"] + b["problems"],
            "coverage": dict(a["coverage"], **b["coverage"])}


def small_graphs(nmax):
    out = []
    for n in range(2, nmax + 1):
        pairs = list(itertools.combinations(range(n), 2))
        seen = set()
        for mask in range(2 ** len(pairs)):
            links = [pairs[i] for i in range(len(pairs)) if (mask >> i) & 1]
            key = None
            for perm in itertools.permutations(range(n)):
                c = tuple(sorted(tuple(sorted((perm[a], perm[b]))) for a, b in links))
                if key is None or c < key:
                    key = c
            if key not in seen:
                seen.add(key)
                out.append((n, [list(l) for l in key]))
    return out


def _cands(n, ps):
    """candidate indices with an interior probability: paths = 2^this"""
    return sum(comb(n, d + 2, exact=True) for d, pr in enumerate(ps) if 0 < pr < 1)


def spec(tier, seed):
    q = tier == "quick"
    units = []
    for n in range(2, 7 if q else 9):
        for m in range(1, min(n, 3 if q else 4) + 1):
            units.append(("C16.decode", {"kind": "comb", "n": n, "m": m}))
    for n in range(2, 5 if q else 6):
        for m in range(1, 4 if q else 5):
            units.append(("C16.decode", {"kind": "prod", "n": n, "m": m}))
    for sizes in itertools.chain.from_iterable(itertools.product(range(1, 4), repeat=m) for m in (1, 2, 3)):
        units.append(("C16.decode", {"kind": "partition", "sizes": list(sizes)}))
    pvals = [0, 0.5, 1]
    for n, maxd in ((3, 2), (4, 2), (5, 1)) if q else ((3, 2), (4, 3), (5, 2)):
        for ps in itertools.product(pvals, repeat=maxd):
            if _cands(n, ps) <= 12:
                units.append(("C16.gen", {"gen": "fast_random_hypergraph", "n": n, "ps": list(ps)}))
    for n, maxd in ((3, 2), (4, 1)) if q else ((3, 2), (4, 2), (5, 1)):
        for ps in itertools.product(pvals, repeat=maxd):
            if _cands(n, ps) <= 12:
                units.append(("C16.gen", {"gen": "random_hypergraph", "n": n, "ps": list(ps)}))
    # the order= keyword: lists that are not increasing, gaps, a single int
    for g in ("random_hypergraph", "fast_random_hypergraph"):
        for od in ([2, 1], [1, 3], [3, 1], [2]):
            for ps in itertools.product(pvals, repeat=len(od)):
                if sum(comb(4, o + 1, exact=True) for o, pr in zip(od, ps) if 0 < pr < 1) <= 10:
                    units.append(("C16.gen", {"gen": g, "n": 4, "ps": list(ps), "order": od}))
        units.append(("C16.gen", {"gen": g, "n": 4, "ps": [0.0, 1.0], "order": [2, 1], "as_array": True}))
        for od in (1, 2, 3):
            for pr in pvals:
                units.append(("C16.gen", {"gen": g, "n": 4, "ps": [pr], "order": od}))
    for n, m in ((3, 2), (4, 2), (5, 2), (4, 3)) if q else ((3, 2), (4, 2), (5, 2), (4, 3), (5, 3), (3, 3), (5, 4)):
        for pr in pvals:
            units.append(("C16.gen", {"gen": "uniform_erdos_renyi_hypergraph", "n": n, "m": m, "p": pr, "p_type": "prob", "multiedges": False}))
        units.append(("C16.gen", {"gen": "uniform_erdos_renyi_hypergraph", "n": n, "m": m, "p": 1.0, "p_type": "degree", "multiedges": False}))
    for n, m in ((3, 2), (2, 2), (2, 3), (3, 1), (4, 1)):
        for pr in pvals:
            units.append(("C16.gen", {"gen": "uniform_erdos_renyi_hypergraph", "n": n, "m": m, "p": pr, "p_type": "prob", "multiedges": True}))
    for n, sizes in ((3, [1, 2]), (4, [2, 2])):
        for vals in itertools.product(pvals, repeat=3):
            a, b, c = vals
            ncand = 4 * (a == 0.5) + 8 * (b == 0.5) + 4 * (c == 0.5)
            if n == 4 and ncand > (4 if q else 12):
                continue  # 2^(candidate indices) paths: <= 4 candidates (quick) / <= 12 (thorough) for n = 4
            units.append(("C16.gen", {"gen": "uniform_HSBM", "n": n, "m": 2, "sizes": sizes, "p": [[a, b], [b, c]]}))
    t3 = np.zeros((2, 2, 2))
    t3[0, 1, 1] = 0.5
    t3[1, 1, 0] = 1.0
    units.append(("C16.gen", {"gen": "uniform_HSBM", "n": 3, "m": 3, "sizes": [1, 2], "p": t3.tolist()}))
    units.append(("C16.gen", {"gen": "uniform_HSBM", "n": 3, "m": 3, "sizes": [1, 2], "p": np.full((2, 2, 2), 1.0).tolist()}))
    for k, m in (({"0": 1, "1": 1, "2": 2}, 2), ({"0": 2, "1": 2, "2": 2}, 3), ({"0": 1, "1": 2}, 2), ({"0": 2, "1": 1, "2": 1, "3": 1}, 2)):
        units.append(("C16.gen", {"gen": "uniform_hypergraph_configuration_model", "k": k, "m": m}))
    units.append(("C16.gen", {"gen": "chung_lu_hypergraph", "k1": {"0": 1, "1": 2, "2": 1}, "k2": {"0": 2, "1": 2}}))
    units.append(("C16.gen", {"gen": "watts_strogatz_hypergraph", "n": 4, "d": 2, "k": 2, "l": 1}))
    units.append(("C16.gen", {"gen": "dcsbm_hypergraph", "k1": {"0": 1, "1": 2, "2": 1}, "k2": {"0": 2, "1": 2}, "g1": {"0": 0, "1": 0, "2": 1}, "g2": {"0": 0, "1": 1}, "omega": [[2, 1], [0, 1]]}))
    for n in range(0, 6):
        for order in range(0, 4):
            units.append(("C16.gen", {"gen": "complete_hypergraph", "n": n, "kw": {"order": order}}))
        for mo in range(1, 4):
            for sing in (False, True):
                units.append(("C16.gen", {"gen": "complete_hypergraph", "n": n, "kw": {"max_order": mo, "include_singletons": sing}}))
    for n, maxd in ((3, 2), (4, 2)) if q else ((3, 2), (4, 3)):
        for ps in itertools.product(pvals, repeat=maxd):
            if _cands(n, ps) <= 12:
                units.append(("C16.gen", {"gen": "random_simplicial_complex", "n": n, "ps": list(ps)}))
    for n, links in small_graphs(4):
        for p2 in (None, 0, 0.5, 1):
            units.append(("C16.gen", {"gen": "flag_complex_d2", "n": n, "links": links, "p2": p2}))
        if len(links) >= 3:
            for lo in ("reversed", "rotated"):
                units.append(("C16.gen", {"gen": "flag_complex_d2", "n": n, "links": links, "p2": None, "link_order": lo}))
                units.append(("C16.gen", {"gen": "flag_complex", "n": n, "links": links, "max_order": 3, "ps": None, "link_order": lo}))
        for mo in (2, 3):
            for ps in (None, [0], [1], [0.5], [1, 0], [0.5, 0.5]):
                units.append(("C16.gen", {"gen": "flag_complex", "n": n, "links": links, "max_order": mo, "ps": ps}))
    for n, links in small_graphs(4):
        if n < 3:
            continue
        for which, mo in (("flag_complex", 2), ("flag_complex", 3), ("flag_complex_d2", 2)):
            for edit in ("add", "remove"):
                units.append(("C16.gen", {"gen": "flag_complex_history", "n": n, "links": links, "max_order": mo, "which": which, "edit": edit}))
    for cls, fns in (("H", ("empty_hypergraph", "trivial_hypergraph")), ("S", ("empty_simplicial_complex",)), ("D", ("empty_dihypergraph",))):
        for fn in fns:
            units.append(("C16.gen", {"gen": "empty_into_used", "cls": cls, "f": fn, "n": 2}))
    for n in (3, 4):
        for pr in (0, 1, 0.5):
            for sd in (1, 2):
                units.append(("C16.gen", {"gen": "random_flag_complex_d2", "n": n, "p": pr, "seed": sd}))
                for mo in (2, 3):
                    units.append(("C16.gen", {"gen": "random_flag_complex", "n": n, "p": pr, "max_order": mo, "seed": sd}))
    for edges, order in (([[0, 1], [1, 2], [0, 1, 2]], 1), ([[0, 1], [2, 3], [0, 2, 3]], 2), ([[0, 1], [1, 2]], 1)):
        for pr in (0, 0.5, 1):
            units.append(("C16.gen", {"gen": "shuffle_hyperedges", "n": 4, "edges": edges, "order": order, "p": pr}))
    for u in units:
        u[1].setdefault("shape", None)
        u[1].setdefault("kind", u[1].get("gen"))
    return {
        "units": units,
        "post": post_all,
        "states_key": "gen",
        "caps": {"paths": 100000, "wall": 900},
        "level": "model_checking",
        "bounds": {"decoders": "comb: n<=6,m<=3 (quick) / n<=8,m<=4; prod: n<=4,m<=3 / n<=5,m<=4; partition: block sizes <=3, m<=3; two symbolic indices each (injectivity + range => bijection by counting)",
                   "generators": "parameter grids with at most 10 candidate indices per order (paths = 2^candidates); probabilities in {0, 0.5, 1}",
                   "draws": "geometric(): any integer >= 1; random(): any real in [0,1); sample(): any sub-selection"},
        "assumptions": ["second engine: CrossHair 0.0.110 confirms range + injectivity of _index_to_edge_comb (n=5,m=3; n=6,m=2) and _index_to_edge_prod (n=3,m=3; n=4,m=2) over all paths",
                        "geometric() is replaced by its contract (>= 1; 1 at p=1; inf at p=0): the distribution is not modelled",
                        "deterministic generators (complete_hypergraph, flag complexes with ps=None) have no solver variable: their units are exhaustive concrete grids"],
        "outside": ["distributional correctness", "large n", "ring_lattice, star_clique, sunflower (deterministic constructions not re-derived here; watts_strogatz_hypergraph: rewiring only, n=4, d=2)"],
    }
