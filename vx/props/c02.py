"""C02 Directed incidence integrity: inductive step on DiHypergraph."""
import xgi

from .. import nets, ops, shapes, stubs
from ..runner import harness

P = {"members": 2, "bulk": 2}


def _shape(s):
    return (s[0], s[1], tuple((tuple(t), tuple(h)) for t, h in s[2]))


@harness("C02.step")
def step(ctx, p):
    D, nl, el, c = nets.build_D(ctx, _shape(p["shape"]), str_labels=p.get("strl", False))
    ctx.info["op"] = p["op"]
    outcome, exc, w = ops.apply(ctx, D, ops.OPS_D[p["op"]], p["P"])
    ctx.info["outcome"] = outcome if exc is None else f"raised {type(exc).__name__}"
    if ctx.symbolic:
        nets.check_tables(D)
    for clause in sorted(set(nets.inv_D(D))):
        ctx.require(False, clause)
    for clause in sorted(set(nets.inv_D_public(D))):
        ctx.require(False, clause)
    # every prefix: one further automatic addition from the reached state
    nets.reencode(D)
    x, y = ctx.fresh("x"), ctx.fresh("x")
    ctx.assume(x != y, *[x != n for n in D._node], *[y != n for n in D._node])
    try:
        with __import__("warnings").catch_warnings():
            __import__("warnings").simplefilter("ignore")
            D.add_edge(([x], [y]))
            D.add_edges_from([([y], [x])])
    except Exception:
        pass
    for clause in sorted(set(nets.inv_D(D))):
        ctx.require(False, "after a follow-up automatic addition: " + clause)


@harness("C02.base")
def base(ctx, p):
    a, b, c = ctx.fresh(), ctx.fresh(), ctx.fresh()
    i, j = ctx.fresh("i"), ctx.fresh("i")
    kind = p["kind"]
    ctx.info["op"] = "ctor:" + kind
    if kind == "empty":
        D = xgi.DiHypergraph()
    elif kind == "list":
        D = xgi.DiHypergraph([([a, b], [b, c]), ([a], []), ([], [c])])
    elif kind == "dict":
        ctx.assume(i != j)
        d = {}
        d[i] = ([a, b], [c])
        d[j] = ([b], [b, c])
        D = xgi.DiHypergraph(d)
    elif kind == "dihypergraph":
        D0 = xgi.DiHypergraph()
        D0.add_edges_from([(([a, b], [b]), i), (([b], [c]), j)])
        D = xgi.DiHypergraph(D0)
    ctx.info["args"] = {"a": a, "b": b, "c": c, "i": i, "j": j}
    for clause in sorted(set(nets.inv_D(D) + nets.inv_D_public(D))):
        ctx.require(False, clause)


@harness("C02.numeric")
def numeric(ctx, p):
    from . import c04

    c04.numeric(ctx, p)


def spec(tier, seed):
    if tier == "quick":
        shp = shapes.shapes_D_upto(2, 2)
        small = set(shapes.shapes_D_upto(2, 1) + shapes.shapes_D(1, 2))
    else:
        shp = shapes.shapes_D_upto(2, 2) + shapes.shapes_D(3, 1) + shapes.shapes_D(1, 3) + shapes.shapes_D(3, 2)[::4] + shapes.shapes_D(2, 3)[::4]
        small = set(shapes.shapes_D_upto(2, 1) + shapes.shapes_D(1, 2))
    units = []
    for s in shp:
        for op in ops.OPS_D:
            if op in ops.HEAVY_D and s not in small:
                continue
            units.append(("C02.step", {"shape": s, "op": op, "P": P}))
    for s in shapes.shapes_D(2, 1):
        for op in ops.OPS_D:
            units.append(("C02.step", {"shape": s, "op": op, "P": P, "strl": True}))
    for k in ("empty", "list", "dict", "dihypergraph"):
        units.append(("C02.base", {"kind": k, "shape": None}))
    units.append(("C02.numeric", {"cls": "D", "shape": None, "op": "numeric ids"}))
    return {
        "units": units,
        "caps": {"paths": 200000 if tier == "quick" else 2000000, "wall": 600 if tier == "quick" else 3000},
        "level": "model_checking",
        "bounds": {
            "shapes": "all DiHypergraph shapes (each node-edge cell in {absent, tail, head, both}) up to isomorphism, N<=2,M<=2" if tier == "quick" else "N<=3,M<=2 or N<=2,M<=3",
            "labels": "node labels, edge ids, counter, every id argument: unbounded integers",
            "steps": "one mutator call from an arbitrary invariant state + constructor base cases",
            "tail_head_len": 2,
            "bulk_len": 2,
        },
        "assumptions": [
            "pre-state satisfies the directed incidence invariant and Fresh",
            "itertools.count replaced by scount; float()/int() shadows in utilities",
            "set iteration order = insertion order of the builder",
        ],
        "outside": ["unhashable ids", "states beyond the size bound"],
    }
