"""C20 Layouts and drawings represent every node and edge faithfully (reduced reach).

Coordinates are floating point and the artists are built by matplotlib, so the
solver cannot decide geometry.  What it does decide is the part of the property
that quantifies over labels: with node labels and edge ids as unbounded solver
integers (and a second label mode with a string label), the real layout functions
return exactly one finite 2-D position per node (the bipartite layout also one per
edge) and for nothing else, `edge_positions_from_barycenters` places each edge at
the mean of its members' positions, and `xgi.draw` - run for real on the Agg
backend with positions supplied by the harness - yields one marker per node at its
position in node order, one line per two-node edge joining its two members, one
polygon per larger edge up to max_order whose vertex set is exactly its members'
positions (SimplicialComplex: maximal simplices of >= 3 nodes as polygons, two-node
simplices as lines).  Shapes (isolated nodes, singleton edges, duplicate and nested
edges) are enumerated; max_order is solver-chosen."""
import warnings

import matplotlib

matplotlib.use("Agg")
import matplotlib.pyplot as plt
import numpy as np
import xgi

from .. import nets, shapes, stubs
from ..runner import harness

CLS = {"H": xgi.Hypergraph, "S": xgi.SimplicialComplex}


def _shape(s):
    return (s[0], s[1], tuple(tuple(e) for e in s[2]))


def _pos(i):
    # points on a parabola: pairwise distinct, no three collinear, convex position
    return np.array([float(i), float(i * i) / 4.0])


def _pos_c(i):
    # second scheme: the last of 3 / 4 points sits exactly on the centroid of the set
    return np.array([(0.0, 0.0), (3.0, 0.0), (0.0, 3.0), (1.0, 1.0), (5.0, 7.0)][i])


def _pt(v):
    return (round(float(v[0]), 9), round(float(v[1]), 9))


def _layout_patch(ctx):
    # `isinstance(n, int)` in _augmented_projection must see a symbolic label as an int
    return stubs.patched({("xgi.drawing.layout", "int"): stubs.sint}) if ctx.symbolic else stubs.patched({})


@harness("C20.draw", raises_are_violations=True)
def draw(ctx, p):
    shape = _shape(p["shape"])
    N, M, edges = shape
    if p.get("mode") == "conc":
        # real hashing and real ordering: every injective assignment from a pool whose
        # insertion order differs from its sorted, string-sorted and set order
        pool = [(0, 1), (1, 0), (2, 2), (0, 0)] if p.get("pool") == "tuples" else [10, 9, -1, 3, "b"]
        nl = [pool.pop(ctx.choose(f"lab{i}", len(pool))) for i in range(N)]
        el = [7, 2, "e", 0][:M]
        with stubs.uninstalled(), warnings.catch_warnings():
            warnings.simplefilter("ignore")
            net = CLS[p["cls"]]()
            net.add_nodes_from(nl)
            for j, e in enumerate(edges):
                if p["cls"] == "S":
                    net.add_simplex([nl[i] for i in e])
                else:
                    net.add_edge([nl[i] for i in e], idx=el[j])
        ctx.info["labels"] = nl
    else:
        net, nl, el, c = nets.build_H(ctx, shape, cls=CLS[p["cls"]], str_labels=p.get("labels", False))
    P = _pos_c if p.get("pos") == "centroid" else _pos
    if p.get("pos") == "centroid" and N == 3:
        P = lambda i: np.array([(0.0, 0.0), (2.0, 0.0), (1.0, 0.0)][i])  # collinear, the last one at the midpoint
    pos = {nl[i]: P(i) for i in range(N)}
    if p["cls"] == "H":
        mo = [None, 1, 2, 3][ctx.choose("max_order", 4)]
    else:
        mo = None
    ctx.info["op"] = "draw"
    ctx.info["args"] = {"max_order": mo}
    fig, ax = plt.subplots()
    try:
        with warnings.catch_warnings():
            warnings.simplefilter("ignore")
            if p.get("mode") == "conc":
                with stubs.uninstalled():
                    ax2, cols = xgi.draw(net, pos=pos, ax=ax, max_order=mo)
            else:
                ax2, cols = xgi.draw(net, pos=pos, ax=ax, max_order=mo)
        node_c, dyad_c, poly_c = cols
        offs = [_pt(v) for v in node_c.get_offsets()]
        segs = [frozenset(_pt(v) for v in s) for s in (dyad_c.get_segments() if dyad_c is not None else [])]
        polys = [frozenset(_pt(v) for v in q.vertices) for q in (poly_c.get_paths() if poly_c is not None else [])]
    finally:
        plt.close("all")
    ctx.require(offs == [_pt(P(i)) for i in range(N)], "draw: node markers are not one per node at its position in node order")
    E = [frozenset(e) for e in edges]
    want_lines = sorted(sorted(_pt(P(i)) for i in e) for e in E if len(e) == 2 and (mo is None or mo >= 1))
    if p["cls"] == "S":
        big = [e for e in set(E) if len(e) >= 3 and not any(e < f for f in E)]
    else:
        big = [e for e in E if len(e) >= 3 and (mo is None or len(e) - 1 <= mo)]
    want_polys = sorted(sorted(_pt(P(i)) for i in e) for e in big)
    ctx.require(sorted(sorted(s) for s in segs) == want_lines, "draw: lines are not exactly one per two-node edge joining its two members")
    ctx.require(sorted(sorted(q) for q in polys) == want_polys, "draw: polygons are not exactly one per larger edge (up to max_order) with its members' positions as vertex set")


@harness("C20.history", raises_are_violations=True)
def history(ctx, p):
    """Two drawings of one object without positions (the default layout), with an edit in
    between that changes the node set but not the node count (and one that changes the count):
    the second drawing must succeed and show the current network - one finite marker per
    node, every line joining the markers of its two members (markers are in node order)."""
    shape = _shape(p["shape"])
    N, M, edges = shape
    pool = [10, 9, -1, 3, "b"]
    nl = [pool.pop(ctx.choose(f"lab{i}", len(pool))) for i in range(N)]
    k = ctx.choose("victim", N)
    edit = ctx.choose("edit", 3)
    ctx.info["op"] = "draw, edit, draw (no positions given)"
    ctx.info["args"] = {"labels": nl, "victim": nl[k], "edit": ["replace a node (same count)", "add a node", "remove a node"][edit]}
    with stubs.uninstalled(), warnings.catch_warnings():
        warnings.simplefilter("ignore")
        net = CLS[p["cls"]]()
        net.add_nodes_from(nl)
        for e in edges:
            if p["cls"] == "S":
                net.add_simplex([nl[i] for i in e])
            else:
                net.add_edge([nl[i] for i in e])
        try:
            fig, ax = plt.subplots()
            xgi.draw(net, ax=ax)
            other = nl[(k + 1) % N]
            if edit == 0:
                net.remove_node(nl[k])
                (net.add_simplex if p["cls"] == "S" else net.add_edge)([other, "new"])
            elif edit == 1:
                (net.add_simplex if p["cls"] == "S" else net.add_edge)([other, "new"])
            else:
                net.remove_node(nl[k])
                (net.add_simplex if p["cls"] == "S" else net.add_edge)([other, nl[(k + 2) % N]] if N >= 3 else [other, "new"])
            fig2, ax2 = plt.subplots()
            ax2, cols = xgi.draw(net, ax=ax2)
            node_c, dyad_c, poly_c = cols
            offs = [_pt(v) for v in node_c.get_offsets()]
            segs = [frozenset(_pt(v) for v in sg) for sg in (dyad_c.get_segments() if dyad_c is not None else [])]
        finally:
            plt.close("all")
        nodes = list(net.nodes)
        ctx.require(len(offs) == len(nodes) and all(np.isfinite(o).all() for o in offs), "second drawing: not one finite marker per current node")
        if len(offs) == len(nodes):
            where = {n: offs[i] for i, n in enumerate(nodes)}
            dy = [frozenset(where[n] for n in m) for m in net.edges.members() if len(m) == 2]
            ctx.require(sorted(sorted(x) for x in dy) == sorted(sorted(x) for x in segs), "second drawing: lines do not join the markers of the current two-node edges")


LAYOUTS = {
    "random_layout": lambda H: xgi.random_layout(H, seed=3),
    "pairwise_spring_layout": lambda H: xgi.pairwise_spring_layout(H, seed=3),
    "barycenter_spring_layout": lambda H: xgi.barycenter_spring_layout(H, seed=3),
    "weighted_barycenter_spring_layout": lambda H: xgi.weighted_barycenter_spring_layout(H, seed=3),
    "barycenter_kamada_kawai_layout": lambda H: xgi.barycenter_kamada_kawai_layout(H),
    "circular_layout": lambda H: xgi.circular_layout(H),
    "spiral_layout": lambda H: xgi.spiral_layout(H),
    "spiral_layout_equidistant": lambda H: xgi.spiral_layout(H, equidistant=True),
}


def _finite2(v):
    a = np.asarray(v, dtype=float)
    return a.shape == (2,) and bool(np.isfinite(a).all())


@harness("C20.dibary", raises_are_violations=True)
def dibary(ctx, p):
    """edge_positions_from_barycenters on a DiHypergraph: each edge at the mean of the
    positions of its members (tail and head together, a node in both counted once)."""
    s = p["shape"]
    shape = (s[0], s[1], tuple((tuple(t), tuple(h)) for t, h in s[2]))
    N, M, edges = shape
    if any(not (set(t) | set(h)) for t, h in edges):
        ctx.assume(False)
    D, nl, el, c = nets.build_D(ctx, shape)
    ctx.info["op"] = "edge_positions_from_barycenters(DiHypergraph)"
    pos = {nl[i]: _pos(i) for i in range(N)}
    with warnings.catch_warnings():
        warnings.simplefilter("ignore")
        ep = xgi.edge_positions_from_barycenters(D, pos)
    ctx.require(nets.same(set(ep), set(D._edge)), "edge_positions_from_barycenters: not exactly one position per edge")
    ok = True
    for j, (t, h) in enumerate(edges):
        want = np.mean([_pos(i) for i in sorted(set(t) | set(h))], axis=0)
        got = [v for k, v in ep.items() if nets.same(k, el[j])]
        ok = ok and len(got) == 1 and bool(np.allclose(got[0], want, atol=1e-12))
    ctx.require(ok, "edge_positions_from_barycenters: a directed edge is not at the mean of its members' positions")


NP_POOL = [np.int64(0), np.int64(2), 1.0, 7, "b"]


@harness("C20.layout", raises_are_violations=True)
def layout(ctx, p):
    shape = _shape(p["shape"])
    N, M, edges = shape
    if p.get("mode") == "conc":
        # labels that are integers without being `int` (numpy ints, integral floats), under real hashing
        pool = list(NP_POOL)
        nl = [pool.pop(ctx.choose(f"lab{i}", len(pool))) for i in range(N)]
        el = [7, 2, "e", 0][:M]
        with stubs.uninstalled(), warnings.catch_warnings():
            warnings.simplefilter("ignore")
            net = CLS[p["cls"]]()
            net.add_nodes_from(nl)
            for j, e in enumerate(edges):
                if p["cls"] == "S":
                    net.add_simplex([nl[i] for i in e])
                else:
                    net.add_edge([nl[i] for i in e], idx=el[j])
            el = list(net._edge)
        ctx.info["labels"] = [repr(x) for x in nl]
    else:
        net, nl, el, c = nets.build_H(ctx, shape, cls=CLS[p["cls"]], str_labels=p.get("labels", False))
    name = p["layout"]
    ctx.info["op"] = name
    with warnings.catch_warnings(), _layout_patch(ctx):
        warnings.simplefilter("ignore")
        if name == "bipartite_spring_layout":
            npos, epos = xgi.bipartite_spring_layout(net, seed=3)
            ctx.require(len(npos) == N and nets.same(set(npos), set(nl)), "bipartite layout: node positions are not exactly one per node")
            ctx.require(len(epos) == len(net._edge) and nets.same(set(epos), set(net._edge)), "bipartite layout: edge positions are not exactly one per edge")
            ctx.require(all(_finite2(v) for v in list(npos.values()) + list(epos.values())), "bipartite layout: a position is not a finite 2-D point")
        elif name == "edge_positions_from_barycenters":
            if any(len(e) == 0 for e in edges):
                ctx.assume(False)
            pos = {nl[i]: _pos(i) for i in range(N)}
            ep = xgi.edge_positions_from_barycenters(net, pos)
            ctx.require(nets.same(set(ep), set(net._edge)), "edge_positions_from_barycenters: not exactly one position per edge")
            ok = True
            for j in range(M):
                if p.get("mode") == "conc" and p["cls"] == "S":
                    break  # simplex ids are assigned by the library here
                want = np.mean([_pos(i) for i in edges[j]], axis=0)
                got = [v for k, v in ep.items() if nets.same(k, el[j])]
                ok = ok and len(got) == 1 and bool(np.allclose(got[0], want, atol=1e-12))
            ctx.require(ok, "edge_positions_from_barycenters: an edge is not at the mean of its members' positions")
        else:
            r = LAYOUTS[name](net)
            ctx.require(len(r) == N and nets.same(set(r), set(nl)), f"{name}: positions are not exactly one per node and for nothing else")
            ctx.require(all(_finite2(v) for v in r.values()), f"{name}: a position is not a finite 2-D point")


def spec(tier, seed):
    if tier == "quick":
        shH = shapes.shapes_H_upto(3, 2) + shapes.shapes_H(4, 2)[::2] + shapes.shapes_H(3, 3)[::3]
        shS = shapes.shapes_S_upto(3)
    else:
        shH = shapes.shapes_H_upto(4, 3) + shapes.shapes_H(5, 2)[::2]
        shS = shapes.shapes_S_upto(4)
    units = []
    drawable = lambda s: any(len(e) >= 2 for e in s[2])
    for cls, sh in (("H", shH), ("S", shS)):
        for s in sh:
            if drawable(s):
                units.append(("C20.draw", {"cls": cls, "shape": s}))
                if s[0] <= 3:
                    units.append(("C20.draw", {"cls": cls, "shape": s, "labels": "str"}))
                if 2 <= s[0] <= 3 and s[1] <= 3:
                    units.append(("C20.draw", {"cls": cls, "shape": s, "mode": "conc"}))
                if 2 <= s[0] <= 3 and s[1] <= 2:
                    units.append(("C20.history", {"cls": cls, "shape": s}))
                if 3 <= s[0] <= 4 and any(len(e) >= 3 for e in s[2]):
                    # a member exactly on the centroid of its edge; tuple labels of equal length
                    units.append(("C20.draw", {"cls": cls, "shape": s, "pos": "centroid"}))
                    if s[0] == 3 and s[1] <= 2:
                        units.append(("C20.draw", {"cls": cls, "shape": s, "mode": "conc", "pool": "tuples"}))
            for name in list(LAYOUTS) + ["bipartite_spring_layout", "edge_positions_from_barycenters"]:
                if name == "bipartite_spring_layout" and cls == "S":
                    continue
                units.append(("C20.layout", {"cls": cls, "shape": s, "layout": name}))
                if s[0] == 2 and s[1] >= 1:
                    units.append(("C20.layout", {"cls": cls, "shape": s, "layout": name, "labels": "str"}))
                if 2 <= s[0] <= 3 and 1 <= s[1] <= 2 and cls == "H":
                    units.append(("C20.layout", {"cls": cls, "shape": s, "layout": name, "mode": "conc"}))
    for s in (shapes.shapes_D_upto(2, 2) if tier == "quick" else shapes.shapes_D_upto(3, 2)):
        if s[0] and s[1]:
            units.append(("C20.dibary", {"cls": "D", "shape": s}))
    return {
        "units": units,
        "caps": {"paths": 20000, "wall": 900},
        "level": "other",
        "explanation": "reduced reach: coordinates are floats computed by numpy/networkx and artists are built by matplotlib, so geometry is not solver-decided; the solver quantifies node labels, edge ids (unbounded integers; one string label in the second mode) and max_order, i.e. every place where layout/drawing code looks a label up, compares it or uses it as a position. Positions handed to draw() are fixed points in convex position so that vertex sets identify edges.",
        "bounds": {"shapes": {"H": f"{len(shH)} shapes", "S": f"{len(shS)} complexes"}, "max_order": [None, 1, 2, 3], "positions": "convex position (parabola); second scheme with one member exactly on the centroid of its edge", "tuple label pool": [[0, 1], [1, 0], [2, 2], [0, 0]], "numeric-type label pool (layouts)": ["numpy.int64(0)", "numpy.int64(2)", 1.0, 7, "b"], "concrete label pool (real hashing/ordering, every injective assignment, N<=3)": [10, 9, -1, 3, "b"], "layouts": sorted(LAYOUTS) + ["bipartite_spring_layout", "edge_positions_from_barycenters"]},
        "assumptions": ["matplotlib Agg backend; collections returned by xgi.draw are read back through get_offsets/get_segments/get_paths",
                        "layout seeds fixed; finiteness is checked on the concrete result of each path",
                        "int shadow in xgi.drawing.layout so that isinstance(label, int) holds for a symbolic label"],
        "outside": ["pixel-level rendering, colours, sizes, z-order", "draw_bipartite / draw_multilayer / directed drawings (directed networks: barycentres only)", "hull=True polygons", "networks without any edge of two or more nodes (the property excludes them for drawing)"],
    }
