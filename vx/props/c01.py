"""C01 Undirected incidence integrity: one inductive step from every small
invariant-satisfying Hypergraph state, every mutator, symbolic ids/arguments."""
from .. import nets, ops, shapes, stubs
from ..runner import harness

P_QUICK = {"members": 3, "bulk": 2}
P_THOROUGH = {"members": 3, "bulk": 2}


@harness("C01.step")
def step(ctx, p):
    shape = (p["shape"][0], p["shape"][1], tuple(tuple(e) for e in p["shape"][2]))
    H, nl, el, c = nets.build_H(ctx, shape, str_labels=p.get("strl", False))
    op = ops.OPS_H[p["op"]]
    ctx.info["op"] = p["op"]
    with stubs.rng(ctx, "xgi.core.hypergraph"):
        outcome, exc, w = ops.apply(ctx, H, op, p["P"])
    ctx.info["outcome"] = outcome if exc is None else f"raised {type(exc).__name__}"
    if ctx.symbolic:
        nets.check_tables(H)
    for clause in sorted(set(nets.inv_H(H))):
        ctx.require(False, clause)
    for clause in sorted(set(nets.inv_H_public(H))):
        ctx.require(False, clause)
    # every prefix: one further automatic addition from the reached state
    nets.reencode(H)
    x, y = ctx.fresh("x"), ctx.fresh("x")
    ctx.assume(x != y, *[x != n for n in H._node], *[y != n for n in H._node])
    try:
        with __import__("warnings").catch_warnings():
            __import__("warnings").simplefilter("ignore")
            H.add_edge([x, y])
            H.add_edges_from([[x]])
    except Exception:
        pass
    for clause in sorted(set(nets.inv_H(H))):
        ctx.require(False, "after a follow-up automatic addition: " + clause)


@harness("C01.base")
def base(ctx, p):
    """Base case: the constructor establishes the invariant."""
    import xgi

    a, b, c = ctx.fresh(), ctx.fresh(), ctx.fresh()
    i, j = ctx.fresh("i"), ctx.fresh("i")
    kind = p["kind"]
    ctx.info["op"] = "ctor:" + kind
    if kind == "empty":
        H = xgi.Hypergraph()
    elif kind == "list":
        H = xgi.Hypergraph([[a, b], [b, c], [a]])
    elif kind == "dict":
        ctx.assume(i != j)
        d = {}
        d[i] = [a, b]
        d[j] = [b, c]
        H = xgi.Hypergraph(d)
    elif kind == "hypergraph":
        H0 = xgi.Hypergraph()
        H0.add_edges_from([([a, b], i), ([b, c], j)])
        H = xgi.Hypergraph(H0)
    ctx.info["args"] = nets.describe({"a": a, "b": b, "c": c, "i": i, "j": j})
    for clause in sorted(set(nets.inv_H(H) + nets.inv_H_public(H))):
        ctx.require(False, clause)


@harness("C01.numeric")
def numeric(ctx, p):
    """Integer-like ids of other numeric types followed by automatic additions
    (shares C04's concrete-pool harness; the incidence invariant is asserted there)."""
    from . import c04

    c04.numeric(ctx, p)


def spec(tier, seed):
    if tier == "quick":
        shp = shapes.shapes_H_upto(3, 2) + shapes.shapes_H(2, 3) + shapes.shapes_H(1, 3)
        P = P_QUICK
    else:
        shp = shapes.shapes_H_upto(4, 3) + shapes.shapes_H(2, 4) + shapes.shapes_H(3, 4)[::3]
        P = P_THOROUGH
    units = []
    small = set(shapes.shapes_H_upto(2, 2)) if tier == "quick" else set(shapes.shapes_H_upto(2, 2) + shapes.shapes_H(3, 1) + shapes.shapes_H(1, 3))
    for s in shp:
        for op in ops.OPS_H:
            if op in ops.HEAVY_H and s not in small:
                continue  # bulk formats: 2 entries x <=2 members x 2 ids already fork heavily
            units.append(("C01.step", {"shape": s, "op": op, "P": P}))
    # second label mode: one string node label and one string edge id
    for s in shapes.shapes_H_upto(2, 2):
        if s[0] and s[1]:
            for op in ops.OPS_H:
                units.append(("C01.step", {"shape": s, "op": op, "P": P, "strl": True}))
    # third label mode: an existing edge already carries the tuple id that merging the
    # first two edges under rename="tuple" would produce
    for s in shapes.shapes_H(1, 3) + shapes.shapes_H(2, 3):
        for op in ("merge_duplicate_edges", "cleanup", "add_edge", "remove_edge"):
            if op in ops.OPS_H:
                units.append(("C01.step", {"shape": s, "op": op, "P": P, "strl": "idtuple"}))
    for k in ("empty", "list", "dict", "hypergraph"):
        units.append(("C01.base", {"kind": k, "shape": None}))
    units.append(("C01.numeric", {"cls": "H", "shape": None, "op": "numeric ids"}))
    return {
        "units": units,
        "caps": {"paths": 200000 if tier == "quick" else 2000000, "wall": 600 if tier == "quick" else 3000},
        "level": "model_checking",
        "bounds": {
            "shapes": "all Hypergraph incidence shapes up to isomorphism with (N<=3,M<=2) or (N<=2,M<=3)" if tier == "quick" else "(N<=4,M<=3), (2,4), a third of (3,4)",
            "labels": "node labels, edge ids, id counter, every id argument: unbounded integers (z3 Int); one string node/edge label in the second label mode",
            "steps": "one mutator call from an arbitrary invariant state (inductive step) + constructor base cases",
            "bulk_ops_shapes": "bulk add formats 1-5 and weighted: N<=2,M<=2" if tier == "quick" else "bulk add formats: (N<=3,M<=2) or (N<=2,M<=3)",
            "member_list_len": P["members"],
            "bulk_len": P["bulk"],
        },
        "assumptions": [
            "pre-state satisfies the incidence invariant and Fresh (counter above every integer id; C04's invariant)",
            "itertools.count replaced by scount (same next/copy contract); float()/int() shadows in utilities",
            "random.sample in random_edge_shuffle returns an arbitrary sub-selection (SymRandom)",
            "set iteration order = insertion order of the builder (DESIGN 3.5)",
        ],
        "outside": ["unhashable or non-integer numeric ids", "states beyond the size bound", "set-order-dependent partial effects beyond the explored order"],
    }
