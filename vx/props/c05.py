"""C05 Each edit has exactly its documented effect: one-step differential between
the real classes and the executable transcription of the docstrings
(vx.refmodel), same symbolic pre-state, same op, same symbolic arguments (twin
run); degree/size-preserving moves keep every degree, size, id and attribute."""
import warnings

import xgi

from .. import nets, ops, refmodel, shapes, stubs
from ..runner import harness

LIB = (xgi.exception.XGIError, xgi.exception.IDNotFound)
P = {"members": 3, "bulk": 2, "bulk_members": 2, "dimembers": 2, "bulk_dimembers": 1}
MODEL_OPS_H = [o for o in ops.OPS_H if o not in ("double_edge_swap", "random_edge_shuffle", "cleanup", "convert_labels", "largest_cc", "add_edges_from_iter", "add_edges_from_attrpairs", "exotic_args")]
MODEL_OPS_D = [o for o in ops.OPS_D if o not in ("cleanup", "convert_labels", "add_edges_from_iter", "exotic_args")]


def _shapeH(s):
    return (s[0], s[1], tuple(tuple(e) for e in s[2]))


def _shapeD(s):
    return (s[0], s[1], tuple((tuple(t), tuple(h)) for t, h in s[2]))


def _kind(exc):
    if exc is None:
        return "returned"
    if isinstance(exc, LIB + (refmodel.RefError,)):
        return "library error"
    return f"foreign error {type(exc).__name__}"


@harness("C05.diff")
def diff(ctx, p):
    if p["cls"] == "H":
        net = nets.build_H(ctx, _shapeH(p["shape"]), attrs=True)[0]
        M = refmodel.RefH
        opf = ops.OPS_H[p["op"]]
    else:
        net = nets.build_D(ctx, _shapeD(p["shape"]), attrs=True)[0]
        M = refmodel.RefD
        opf = ops.OPS_D[p["op"]]
    pre = nets.snap(net, counter=True)
    model = M.of(pre, pre["counter"])
    ctx.info["op"] = p["op"]
    mark = dict(ctx.seq)
    out_r, exc_r, w_r = ops.apply(ctx, net, opf, P)
    args = ctx.info.get("args")
    with nets.twin(ctx, mark):
        out_m, exc_m, w_m = ops.apply(ctx, model, opf, P)
    ctx.info["args"] = args
    ctx.info["outcome"] = _kind(exc_r)
    if isinstance(exc_m, AttributeError) and p["op"] == "none_ids":
        exc_m = refmodel.Unspecified("call not transcribed in the reference model")
    if isinstance(exc_m, refmodel.Unspecified):
        ctx.info["outcome"] = "unspecified by the documentation"
        return
    if exc_m is not None and not isinstance(exc_m, refmodel.RefError):
        raise exc_m  # a bug in the reference model must not pass silently
    ctx.require(_kind(exc_r) == _kind(exc_m), "outcome differs from the documented one (returns / library error)")
    ctx.require(nets.same(nets.snap(net, counter=True), model.snap()), "network after the edit differs from the documented effect")
    ctx.require(("UserWarning" in w_r) == ("UserWarning" in w_m), "warning behaviour differs from the documented one")
    if p["op"] in ("convert_labels", "cleanup") or ctx.violations:
        return
    # any SEQUENCE of edits: one further documented edit from the reached state (a state
    # that only looks right - e.g. membership sets shared between nodes - shows here)
    y = ctx.fresh("fy")
    ctx.assume(*[y != n for n in net._node if nets.intlike(n)])
    x = next(iter(net._node), None)
    if x is None:
        x = ctx.fresh("fx")
    mem = ([x], [y]) if p["cls"] == "D" else [x, y]
    import warnings

    with warnings.catch_warnings():
        warnings.simplefilter("ignore")
        try:
            net.add_edge(mem)
        except Exception:
            pass
        try:
            model.add_edge(mem)
        except Exception:
            pass
    ctx.require(nets.same(nets.snap(net, counter=True), model.snap()), "after one further add_edge the network differs from the documented effect of the sequence")


@harness("C05.moves")
def moves(ctx, p):
    H = nets.build_H(ctx, _shapeH(p["shape"]), attrs=True)[0]
    pre = nets.snap(H, counter=True)
    ctx.info["op"] = p["op"]
    with stubs.rng(ctx, "xgi.core.hypergraph"):
        outcome, exc, w = ops.apply(ctx, H, ops.OPS_H[p["op"]], P)
    ctx.info["outcome"] = _kind(exc)
    post = nets.snap(H, counter=True)
    if exc is not None:
        ctx.require(nets.same(pre, post), "a rejected move changed the network")
        if p["op"] == "double_edge_swap":
            ctx.require(isinstance(exc, LIB), "double_edge_swap rejected its arguments with a foreign error type")
        return
    ctx.require(nets.same(pre["nodes"], post["nodes"]) and nets.same(pre["edges"], post["edges"]), "a move changed the ids or their order")
    ctx.require(all(len(pre["memberships"][n]) == len(post["memberships"][n]) for n in pre["nodes"]), "a move changed a node degree")
    ctx.require(all(len(pre["members"][e]) == len(post["members"][e]) for e in pre["edges"]), "a move changed an edge size")
    ctx.require(nets.same(pre["node_attr"], post["node_attr"]) and nets.same(pre["edge_attr"], post["edge_attr"]) and nets.same(pre["net_attr"], post["net_attr"]), "a move changed attributes")
    ctx.require(pre["counter"] == post["counter"], "a move changed the id counter")
    ctx.require(not nets.inv_H(H), "a move broke the incidence invariant")
    if p["op"] == "double_edge_swap":
        a = ctx.info["args"]
        n1, n2, e1, e2 = a["n_id1"], a["n_id2"], a["e_id1"], a["e_id2"]
        ok = (n1 in pre["members"][e1]) and (n2 in pre["members"][e2])
        ctx.require(ok, "double_edge_swap accepted nodes that are not members of the given edges")
        if ok:
            exp1 = set(pre["members"][e1])
            exp1.discard(n1)
            exp1.add(n2)
            exp2 = set(pre["members"][e2])
            exp2.discard(n2)
            exp2.add(n1)
            if not nets.same(e1, e2):
                ctx.require(nets.same(post["members"][e1], exp1) and nets.same(post["members"][e2], exp2), "double_edge_swap did not exchange exactly the two nodes")
    else:
        # random_edge_shuffle: only the two chosen edges change; shared nodes stay; the union is kept
        changed = [e for e in pre["edges"] if not nets.same(pre["members"][e], post["members"][e])]
        ctx.require(len(changed) in (0, 2), "random_edge_shuffle changed other than two edges")
        if len(changed) == 2:
            e1, e2 = changed
            both = {n for n in pre["members"][e1] if n in pre["members"][e2]}
            ctx.require(all(n in post["members"][e1] and n in post["members"][e2] for n in both), "random_edge_shuffle moved a node shared by both edges")
            ctx.require(nets.same(pre["members"][e1] | pre["members"][e2], post["members"][e1] | post["members"][e2]), "random_edge_shuffle lost or invented a node")


def spec(tier, seed):
    if tier == "quick":
        shH = shapes.shapes_H_upto(2, 2) + shapes.shapes_H(3, 1) + shapes.shapes_H(3, 2)[:6]
        smallH = set(shapes.shapes_H_upto(2, 1) + shapes.shapes_H(1, 2))
        shD = shapes.shapes_D_upto(2, 1) + shapes.shapes_D(1, 2)
        smallD = set(shapes.shapes_D_upto(1, 1))
        shM = shapes.shapes_H_upto(3, 2) + shapes.shapes_H(2, 3)
    else:
        shH = shapes.shapes_H_upto(3, 2) + shapes.shapes_H(2, 3) + shapes.shapes_H(3, 3)[::4]
        smallH = set(shapes.shapes_H_upto(2, 2))
        shD = shapes.shapes_D_upto(2, 2)
        smallD = set(shapes.shapes_D_upto(1, 1) + shapes.shapes_D(2, 1)[::2])
        shM = shapes.shapes_H_upto(3, 3) + shapes.shapes_H(4, 2)
    units = []
    for s in shH:
        for op in MODEL_OPS_H:
            if op in ops.HEAVY_H and s not in smallH:
                continue
            units.append(("C05.diff", {"cls": "H", "shape": s, "op": op}))
    for s in shD:
        for op in MODEL_OPS_D:
            if op in ops.HEAVY_D and s not in smallD:
                continue
            units.append(("C05.diff", {"cls": "D", "shape": s, "op": op}))
    for s in shM:
        for op in ("double_edge_swap", "random_edge_shuffle"):
            units.append(("C05.moves", {"cls": "H", "shape": s, "op": op}))
    return {
        "units": units,
        "caps": {"paths": 300000, "wall": 1200},
        "level": "model_checking",
        "bounds": {"shapes": f"{len(shH)} Hypergraph and {len(shD)} DiHypergraph shapes (differential), {len(shM)} shapes (moves)",
                   "labels": "labels, ids, counter, attribute values, kwargs-vs-per-item attribute values: unbounded integers",
                   "ops": {"H": MODEL_OPS_H, "D": MODEL_OPS_D}},
        "assumptions": ["the reference model (vx/refmodel.py, ~400 lines) is a faithful transcription of the docstrings; ambiguous points follow the implementation and are listed: " + "; ".join(refmodel.AMBIGUOUS),
                        "random.sample is an arbitrary sub-selection (SymRandom)"],
        "outside": ["SimplicialComplex differential (its semantics are decided under C03)", "cleanup/relabel/largest component (C19)"],
    }
