"""C12 Matrix representations encode the network exactly (reduced reach: shapes
and option grids are enumerated; the solver quantifies the labels - node labels
and edge ids are unbounded solver integers, so 'with the returned index maps, for
any labels' is decided for all integer labelings at once - and the small integer
parameters order and s are solver-chosen)."""
import itertools
import math
import warnings

import numpy as np
import xgi

from .. import nets, realq, shapes
from ..runner import harness


def _shape(s):
    return (s[0], s[1], tuple(tuple(e) for e in s[2]))


def dense(M):
    return np.asarray(M.toarray() if hasattr(M, "toarray") else M)


def close(a, b):
    return abs(float(a) - float(b)) <= 1e-9 * max(1.0, abs(float(a)), abs(float(b)))


def inv_map(ctx, d, labels, what):
    """index map {pos: label} -> list pos_of[k] for labels[k]; requires a bijection."""
    pos = []
    used = set()
    ok = len(d) == len(labels)
    for lab in labels:
        hit = [i for i, x in d.items() if nets.same(x, lab)]
        if len(hit) != 1 or hit[0] in used:
            ok = False
            pos.append(None)
        else:
            used.add(hit[0])
            pos.append(hit[0])
    ctx.require(ok and used == set(range(len(labels))), f"{what}: the returned index map is not a bijection onto the expected ids")
    return pos if ok else None


def _warm(H):
    """every matrix function once with default arguments (results discarded)"""
    for f in (xgi.incidence_matrix, xgi.adjacency_matrix, xgi.degree_matrix, xgi.intersection_profile, xgi.clique_motif_matrix,
              xgi.normalized_hypergraph_laplacian, lambda h: xgi.laplacian(h, 1), lambda h: xgi.laplacian(h, 2),
              lambda h: xgi.multiorder_laplacian(h, [1, 2], [1, 1]), lambda h: xgi.adjacency_tensor(h, 1), lambda h: xgi.adjacency_tensor(h, 2),
              lambda h: xgi.incidence_matrix(h, order=1), lambda h: xgi.adjacency_matrix(h, order=1)):
        try:
            f(H)
        except Exception:
            pass


def _build(ctx, p, shape):
    if p.get("warm"):
        return nets.build_H_warm(ctx, shape, _warm)
    return nets.build_H(ctx, shape)


@harness("C12.matrices", raises_are_violations=True)
def matrices(ctx, p):
    shape = _shape(p["shape"])
    N, M, edges = shape
    H, nl, el, c = _build(ctx, p, shape)
    oi = ctx.choose("order", 5)
    order = [None, 0, 1, 2, 3][oi]
    s = 1 + ctx.choose("s", 3)
    weighted = ctx.flag("weighted")
    ctx.info["op"] = "matrices"
    ctx.info["args"] = {"order": order, "s": s, "weighted": weighted}
    sel = [j for j in range(M) if order is None or len(edges[j]) == order + 1]
    E = [set(edges[j]) for j in sel]
    with warnings.catch_warnings():
        warnings.simplefilter("ignore")
        res = {}
        for sparse in (True, False):
            I, rd, cd = xgi.incidence_matrix(H, order=order, sparse=sparse, index=True)
            A, ard = xgi.adjacency_matrix(H, order=order, sparse=sparse, s=s, weighted=weighted, index=True)
            P, pcd = xgi.intersection_profile(H, order=order, sparse=sparse, index=True)
            res[sparse] = (dense(I), rd, cd, dense(A), ard, dense(P), pcd)
        K, krd = xgi.degree_matrix(H, order=order, index=True)
        for a, b in zip(res[True], res[False]):
            if isinstance(a, dict):
                ctx.require(nets.same(a, b), "sparse and dense outputs return different index maps")
            else:
                ctx.require(a.shape == b.shape and np.allclose(a, b), "sparse and dense outputs differ")
        I, rd, cd, A, ard, P, pcd = res[False]
        if N == 0 or not sel:
            ctx.require(I.shape == (0, 0) and not rd and not cd, "incidence matrix of a network without nodes or requested edges is not empty")
            if N == 0:
                ctx.require(A.shape == (0, 0), "adjacency matrix of a network without nodes is not empty")
            else:
                ctx.require(A.shape == (N, N) and not A.any(), "adjacency matrix without edges of the requested order is not the N x N zero matrix")
                ctx.require(np.shape(K) == (N,) and not np.any(K), "degree vector without edges of the requested order is not zero")
            return
        rpos = inv_map(ctx, rd, nl, "incidence_matrix rows")
        cpos = inv_map(ctx, cd, [el[j] for j in sel], "incidence_matrix columns")
        if rpos is None or cpos is None:
            return
        ctx.require(I.shape == (N, len(sel)), "incidence matrix has the wrong shape")
        ok = True
        for a in range(N):
            for k, e in enumerate(E):
                ok = ok and (I[rpos[a], cpos[k]] == (1 if a in e else 0))
        ctx.require(ok, "incidence matrix does not have a one exactly at the member pairs of the requested order")
        apos = inv_map(ctx, ard, nl, "adjacency_matrix")
        if apos is not None:
            ok = A.shape == (N, N)
            for a in range(N):
                for b in range(N):
                    cnt = 0 if a == b else len([e for e in E if a in e and b in e])
                    want = (cnt if cnt >= s else 0) if weighted else (1 if cnt >= s else 0)
                    if a == b:
                        want = 0
                    ok = ok and A[apos[a], apos[b]] == want and A[apos[a], apos[b]] == A[apos[b], apos[a]]
            ctx.require(ok, "adjacency matrix is not the (thresholded) number of shared edges, symmetric with zero diagonal")
        kpos = inv_map(ctx, krd, nl, "degree_matrix")
        if kpos is not None:
            ctx.require(all(K[kpos[a]] == len([e for e in E if a in e]) for a in range(N)), "degree vector differs from the number of edges of the requested order per node")
        ppos = inv_map(ctx, pcd, [el[j] for j in sel], "intersection_profile")
        if ppos is not None:
            ctx.require(all(P[ppos[x], ppos[y]] == len(E[x] & E[y]) for x in range(len(E)) for y in range(len(E))), "intersection profile differs from the pairwise intersection sizes")


@harness("C12.laplacians", raises_are_violations=True)
def laplacians(ctx, p):
    shape = _shape(p["shape"])
    N, M, edges = shape
    H, nl, el, c = _build(ctx, p, shape)
    d = 1 + ctx.choose("order", 3)
    rescale = ctx.flag("rescale_per_node")
    sparse = ctx.flag("sparse")
    ctx.info["op"] = "laplacians"
    ctx.info["args"] = {"order": d, "rescale_per_node": rescale, "sparse": sparse}
    allE = [set(e) for e in edges]

    def lap_expect(dd):
        E = [e for e in allE if len(e) == dd + 1]
        L = np.zeros((N, N))
        for a in range(N):
            for b in range(N):
                if a == b:
                    L[a, b] = dd * len([e for e in E if a in e])
                else:
                    L[a, b] = -len([e for e in E if a in e and b in e])
        return L / dd if rescale else L, E

    with warnings.catch_warnings():
        warnings.simplefilter("ignore")
        L, rd = xgi.laplacian(H, order=d, sparse=sparse, rescale_per_node=rescale, index=True)
        L = dense(L)
        want, E = lap_expect(d)
        if N == 0 or not E:
            ctx.require(L.shape == (0, 0) or (L.shape == (N, N) and not L.any()), "order-d Laplacian without edges of that order is neither empty nor zero")
        else:
            pos = inv_map(ctx, rd, nl, "laplacian")
            if pos is not None:
                ok = L.shape == (N, N) and all(close(L[pos[a], pos[b]], want[a, b]) for a in range(N) for b in range(N))
                ctx.require(ok, "order-d Laplacian differs from d*K - A")
                ctx.require(all(close(L[i].sum(), 0) for i in range(N)) and np.allclose(L, L.T), "order-d Laplacian has non-zero row sums or is not symmetric")
        # multi-order
        w2 = 1 + ctx.choose("w", 2)
        if ctx.flag("repeat_order"):
            orders, weights = [1, 2, 1], [1.0, float(w2), 0.5]
        else:
            orders, weights = [1, 2, 3], [1.0, float(w2), 0.5]
        Lm, mrd = xgi.multiorder_laplacian(H, orders, weights, sparse=sparse, rescale_per_node=rescale, index=True)
        Lm = dense(Lm)
        mpos = inv_map(ctx, mrd, nl, "multiorder_laplacian")
        if mpos is not None and N > 0:
            exp = np.zeros((N, N))
            for dd, w in zip(orders, weights):
                Ld, Ed = lap_expect(dd)
                if Ed:
                    kmean = np.mean([len([e for e in Ed if a in e]) for a in range(N)])
                    exp += Ld * w / kmean
            ok = Lm.shape == (N, N) and all(close(Lm[mpos[a], mpos[b]], exp[a, b]) for a in range(N) for b in range(N))
            ctx.require(ok, "multi-order Laplacian differs from sum_d w_d L_d / <K_d>")
            ctx.require(all(close(Lm[i].sum(), 0) for i in range(N)) and np.allclose(Lm, Lm.T), "multi-order Laplacian has non-zero row sums or is not symmetric")
        # normalised Laplacian
        iso = any(not any(a in e for e in allE) for a in range(N))
        empt = any(len(e) == 0 for e in allE)
        if N > 0 and M > 0 and not empt:
            wt = ctx.flag("weighted")
            ws = [1.0] * M
            if wt:
                ws = [2.0 if j == 0 else 1.0 for j in range(M)]
                for j, e in enumerate(el):
                    H._edge_attr[e]["weight"] = ws[j]
            try:
                Ln, nrd = xgi.normalized_hypergraph_laplacian(H, weighted=wt, sparse=sparse, index=True)
                exc = None
            except Exception as ex:
                exc = ex
            if iso:
                ctx.require(isinstance(exc, xgi.exception.XGIError), "normalised Laplacian with an isolated node does not raise XGIError")
            else:
                ctx.require(exc is None, "normalised Laplacian raised on a network without isolated nodes")
                if exc is None:
                    Ln = dense(Ln)
                    npos = inv_map(ctx, nrd, nl, "normalized_hypergraph_laplacian")
                    if npos is not None:
                        deg = [len([e for e in allE if a in e]) for a in range(N)]
                        ok = True
                        for a in range(N):
                            for b in range(N):
                                v = (1.0 if a == b else 0.0) - sum(ws[j] / len(allE[j]) for j in range(M) if a in allE[j] and b in allE[j]) / math.sqrt(deg[a] * deg[b])
                                ok = ok and close(Ln[npos[a], npos[b]], v)
                        ctx.require(ok and np.allclose(Ln, Ln.T), "normalised Laplacian differs from I - Dv^-1/2 H W De^-1 H^T Dv^-1/2")
        # clique motif matrix and adjacency tensor
        W, wrd = xgi.clique_motif_matrix(H, sparse=sparse, index=True)
        W = dense(W)
        if N > 0 and M > 0 and any(len(e) for e in allE):
            wpos = inv_map(ctx, wrd, nl, "clique_motif_matrix")
            if wpos is not None:
                ctx.require(all(W[wpos[a], wpos[b]] == (0 if a == b else len([e for e in allE if a in e and b in e])) for a in range(N) for b in range(N)), "clique motif matrix differs from the number of shared edges")
        norm = ctx.flag("normalized")
        B, brd = xgi.adjacency_tensor(H, d, normalized=norm, index=True)
        Ed = [e for e in allE if len(e) == d + 1]
        if N > 0 and not Ed:
            ctx.require(np.shape(B) == (N,) * (d + 1) and not np.any(B), "adjacency tensor without edges of the requested order is not the zero tensor of shape (N,)*(d+1)")
        if N > 0 and Ed:
            bpos = inv_map(ctx, brd, nl, "adjacency_tensor")
            if bpos is not None:
                val = 1.0 / math.factorial(d) if norm else 1
                ok = B.shape == (N,) * (d + 1)
                for idx in itertools.product(range(N), repeat=d + 1):
                    want = val if (len(set(idx)) == d + 1 and set(idx) in Ed) else 0
                    ok = ok and close(B[tuple(bpos[i] for i in idx)], want)
                ctx.require(ok, "adjacency tensor differs from its definition")


def _psd(ctx, L, tag, what):
    """for every real vector x: x^T L x >= 0, decided by z3 (nlsat) on the matrix the library
    returned - see vx/realq.py"""
    realq.require_psd(ctx, L, what)


@harness("C12.psd", raises_are_violations=True)
def psd(ctx, p):
    shape = _shape(p["shape"])
    N, M, edges = shape
    H, nl, el, c = _build(ctx, p, shape)
    d = 1 + ctx.choose("order", 3)
    rescale = ctx.flag("rescale_per_node")
    wt = ctx.flag("weighted")
    ctx.info["op"] = "laplacians (positive semidefiniteness)"
    ctx.info["args"] = {"order": d, "rescale_per_node": rescale, "weighted": wt}
    allE = [set(e) for e in edges]
    with warnings.catch_warnings():
        warnings.simplefilter("ignore")
        L = dense(xgi.laplacian(H, order=d, sparse=False, rescale_per_node=rescale))
        Lm = dense(xgi.multiorder_laplacian(H, [1, 2, 3], [1.0, 2.0 if wt else 0.0, 0.5], sparse=True, rescale_per_node=rescale))
        Ln = None
        iso = any(not any(a in e for e in allE) for a in range(N))
        if N > 0 and M > 0 and not iso and not any(len(e) == 0 for e in allE):
            if wt:
                for j, e in enumerate(el):
                    H._edge_attr[e]["weight"] = 2.5 if j == 0 else 0.5
            Ln = dense(xgi.normalized_hypergraph_laplacian(H, weighted=wt, sparse=False))
    _psd(ctx, L, "d", "order-d Laplacian")
    _psd(ctx, Lm, "m", "multi-order Laplacian (non-negative weights)")
    if Ln is not None:
        _psd(ctx, Ln, "n", "normalised Laplacian")


def spec(tier, seed):
    if tier == "quick":
        shp = shapes.shapes_H_upto(3, 3) + shapes.shapes_H(4, 2)
    else:
        shp = shapes.shapes_H_upto(4, 4)
    units = []
    for s in shp:
        units.append(("C12.matrices", {"shape": s}))
        units.append(("C12.laplacians", {"shape": s}))
        if s[0] and s[1]:
            units.append(("C12.psd", {"shape": s}))
        if s[0] and s[1] and (tier != "quick" or s[0] <= 3):
            # the same state reached through a history on one object (caches keyed by object or size)
            units.append(("C12.matrices", {"shape": s, "warm": True}))
            units.append(("C12.laplacians", {"shape": s, "warm": True}))
    return {
        "units": units,
        "caps": {"paths": 50000, "wall": 900},
        "level": "other",
        "explanation": "The numeric kernels are scipy/numpy and a symbolic value cannot cross into them, so shapes (all hypergraph incidence structures up to isomorphism within the bound, including isolated nodes, empty/duplicate/singleton edges) and the option grid are enumerated; what z3 quantifies is the labelling - node labels and edge ids are unbounded solver integers, so every statement 'with the returned index maps' is decided for all integer labelings at once (this is where a label-as-position confusion shows) - and the small parameters order, s, weighted, sparse, rescale_per_node, normalized are solver-chosen forks. Oracles are brute-force matrices from the incidence shape. Positive semidefiniteness (C12.psd) is decided by z3 over the reals: the matrix the library returned is taken entry by entry as rationals (denominator <= 1e9) and, for each k, the query 'exists x in [-1,1]^N with x_k = 1 and x^T L x < -1e-6' must be unsat (z3 nlsat, N <= 4 unknowns; the form is homogeneous, so this covers every direction); a model is a concrete vector, re-evaluated with numpy before it is reported.",
        "bounds": {"shapes": f"{len(shp)} shapes", "order": "None, 0..3", "s": "1..3", "laplacian order": "1..3", "multi-order": "orders [1,2,3], weights [1, w, 0.5], w in {1,2}",
                   "histories": "each shape also reached on one object from the complementary incidence after every matrix function ran once (same node and edge counts)"},
        "assumptions": ["labels: unbounded integers", "floats compared with relative tolerance 1e-9"],
        "outside": ["string labels", "custom incidence weight functions"],
    }
