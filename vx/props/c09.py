"""C09 Structural measures are invariant under relabelling and insertion order.

Per shape: node labels and edge ids are solver integers in a window (so that a
list indexed by an id is reached through exhaustive forking), inserted in
several orders; every measure is computed on the symbolically labelled network,
mapped back through the labelling and compared with the same measure on the
canonical labelling (nodes 0..n-1, edge ids 0..m-1, inserted in order)."""
import math
import warnings

import numpy as np
import xgi

from .. import nets, shapes, stubs
from ..runner import harness

WINDOW = (-4, 6)


def _shape(s):
    return (s[0], s[1], tuple(tuple(e) for e in s[2]))


def _close(a, b):
    if isinstance(a, (float, np.floating)) or isinstance(b, (float, np.floating)):
        a, b = float(a), float(b)
        if math.isnan(a) or math.isnan(b):
            return math.isnan(a) and math.isnan(b)
        if math.isinf(a) or math.isinf(b):
            return a == b
        return abs(a - b) <= 1e-9 * max(1.0, abs(a), abs(b))
    return bool(a == b)


def node_dict(f):
    def run(H, nl, el):
        r = f(H)
        return ("vec", [r[n] for n in nl])
    return run


def edge_dict(f):
    def run(H, nl, el):
        r = f(H)
        return ("vec", [r[e] for e in el])
    return run


def scalar(f):
    def run(H, nl, el):
        return ("vec", [f(H)])
    return run


def partition(f):
    def run(H, nl, el):
        comps = [set(c) for c in f(H)]
        idx = []
        for c in comps:
            idx.append(frozenset(i for i, n in enumerate(nl) if n in c))
        return ("set", set(idx))
    return run


def node_set(f):
    def run(H, nl, el):
        r = set(f(H))
        return ("set", {i for i, n in enumerate(nl) if n in r})
    return run


def edge_set(f):
    def run(H, nl, el):
        r = set(f(H))
        return ("set", {j for j, e in enumerate(el) if e in r})
    return run


def edge_classes(f):
    """duplicates: which representative is kept is label dependent by design;
    compare the number kept per class of equal edges."""
    def run(H, nl, el):
        r = set(f(H))
        classes = {}
        for j, e in enumerate(el):
            key = frozenset(i for i, n in enumerate(nl) if n in H._edge[e])
            classes.setdefault(key, []).append(1 if e in r else 0)
        return ("set", {(k, sum(v)) for k, v in classes.items()})
    return run


def node_node(f):
    def run(H, nl, el):
        r = f(H)
        return ("vec", [r[a][b] for a in nl for b in nl])
    return run


def matrix(f, rows, cols):
    """f(H) -> (M, rowmap, colmap) (index -> label); compare entrywise by label."""
    def run(H, nl, el):
        out = f(H)
        M = out[0]
        if hasattr(M, "toarray"):
            M = M.toarray()
        M = np.asarray(M)
        maps = out[1:]
        rl = nl if rows == "n" else el
        cl = nl if cols == "n" else el
        rmap, cmap = maps[0], maps[-1]
        if M.size == 0:
            return ("vec", [("empty", tuple(M.shape))])
        rinv = {lab: i for i, lab in rmap.items()}
        cinv = {lab: i for i, lab in cmap.items()}
        vals = []
        for a in rl:
            for b in cl:
                if a in rinv and b in cinv:
                    vals.append(M[rinv[a], cinv[b]])
                else:
                    vals.append("absent")
        return ("vec", vals)
    return run


MEASURES = {
    "degree": node_dict(lambda H: H.nodes.degree.asdict()),
    "size": edge_dict(lambda H: H.edges.size.asdict()),
    "average_neighbor_degree": node_dict(lambda H: H.nodes.average_neighbor_degree.asdict()),
    "clustering_coefficient": node_dict(xgi.clustering_coefficient),
    "local_clustering_coefficient": node_dict(xgi.local_clustering_coefficient),
    "two_node_clustering_union": node_dict(lambda H: xgi.two_node_clustering_coefficient(H, kind="union")),
    "two_node_clustering_min": node_dict(lambda H: xgi.two_node_clustering_coefficient(H, kind="min")),
    "two_node_clustering_max": node_dict(lambda H: xgi.two_node_clustering_coefficient(H, kind="max")),
    "connected_components": partition(xgi.connected_components),
    "number_connected_components": scalar(xgi.number_connected_components),
    "is_connected": scalar(xgi.is_connected),
    "largest_connected_component_size": scalar(lambda H: len(xgi.largest_connected_component(H))),
    "shortest_path_length": node_node(lambda H: dict(xgi.shortest_path_length(H))),
    "density": scalar(xgi.density),
    "density_order1": scalar(lambda H: xgi.density(H, order=1)),
    "incidence_density": scalar(xgi.incidence_density),
    "edit_simpliciality": scalar(xgi.edit_simpliciality),
    "simplicial_fraction": scalar(xgi.simplicial_fraction),
    "face_edit_simpliciality": scalar(xgi.face_edit_simpliciality),
    "maximal": edge_set(lambda H: H.edges.maximal()),
    "maximal_strict": edge_set(lambda H: H.edges.maximal(strict=True)),
    "duplicates": edge_classes(lambda H: H.edges.duplicates()),
    "isolates": node_set(lambda H: H.nodes.isolates()),
    "singletons": edge_set(lambda H: H.edges.singletons()),
    "katz_centrality": node_dict(lambda H: xgi.katz_centrality(H, cutoff=5)),
    "incidence_matrix": matrix(lambda H: xgi.incidence_matrix(H, sparse=False, index=True), "n", "e"),
    "adjacency_matrix": matrix(lambda H: xgi.adjacency_matrix(H, sparse=False, index=True), "n", "n"),
    "adjacency_matrix_weighted": matrix(lambda H: xgi.adjacency_matrix(H, sparse=False, index=True, weighted=True), "n", "n"),
    "laplacian": matrix(lambda H: xgi.laplacian(H, order=1, sparse=False, index=True), "n", "n"),
    "degree_matrix": matrix(lambda H: (lambda K, m: (K.reshape(-1, 1), m, {0: "col"}))(*xgi.degree_matrix(H, index=True)), "n", "c"),
    "clique_motif_matrix": matrix(lambda H: xgi.clique_motif_matrix(H, sparse=False, index=True), "n", "n"),
    "intersection_profile": matrix(lambda H: xgi.intersection_profile(H, sparse=False, index=True), "e", "e"),
}
# measures defined only for uniform hypergraphs with >= 1 edge ... (assortativity needs singleton-free)
ASSORT = {
    "degree_assortativity_uniform": scalar(lambda H: xgi.degree_assortativity(H, kind="uniform", exact=True)),
    "degree_assortativity_top2": scalar(lambda H: xgi.degree_assortativity(H, kind="top-2", exact=True)),
    "degree_assortativity_topbottom": scalar(lambda H: xgi.degree_assortativity(H, kind="top-bottom", exact=True)),
    "dynamical_assortativity": scalar(xgi.dynamical_assortativity),
}
MEASURES.update(ASSORT)

_REF = {}


def _run(measure, H, nl, el):
    with warnings.catch_warnings():
        warnings.simplefilter("ignore")
        with np.errstate(all="ignore"):
            try:
                return MEASURES[measure](H, nl, el)
            except Exception as ex:
                return ("exc", type(ex).__name__)


def reference(shape, measure):
    key = (shape, measure)
    if key not in _REF:
        N, M, edges = shape
        with stubs.uninstalled():
            H = xgi.Hypergraph()
            H.add_nodes_from(range(N))
            for j in range(M):
                H.add_edge([i for i in edges[j]], idx=j)
            if measure == "degree_matrix":
                pass
            _REF[key] = _run(measure, H, list(range(N)), list(range(M)))
    return _REF[key]


def _cmp(a, b):
    if a[0] != b[0]:
        return False
    if a[0] == "exc":
        return True  # both raise (the type may legitimately differ with the label type)
    if a[0] == "set":
        return a[1] == b[1]
    if len(a[1]) != len(b[1]):
        return False
    return all(_close(x, y) for x, y in zip(a[1], b[1]))


@harness("C09.relabel")
def relabel(ctx, p):
    shape = _shape(p["shape"])
    N, M, edges = shape
    lo, hi = WINDOW
    nl = [ctx.int(f"n{i}", lo, hi, kind="L", group="n") for i in range(N)]
    el = [ctx.int(f"e{j}", lo, hi, kind="L", group="e") for j in range(M)]
    ctx.distinct(nl)
    ctx.distinct(el)
    H = xgi.Hypergraph()
    no, eo = p["order"]
    for i in no:
        H._node[nl[i]] = set()
        H._node_attr[nl[i]] = {}
    for j in eo:
        mem = [nl[i] for i in (reversed(edges[j]) if p.get("rev") else edges[j])]
        H._edge[el[j]] = set(mem)
        H._edge_attr[el[j]] = {}
        for n in mem:
            H._node[n].add(el[j])
    H._edge_uid = ctx.counter(hi + 1)
    m = p["measure"]
    ctx.info["op"] = m
    ctx.info["args"] = {"nodes": nl, "edges": el, "node_order": no, "edge_order": eo}
    ref = reference(shape, m)
    got = _run(m, H, nl, el)
    if got[0] == "exc" and ref[0] != "exc":
        ctx.info["outcome"] = "raised " + str(got[1])
        ctx.require(False, f"{m} raises under relabelling although it is defined on the canonical labelling")
    else:
        ctx.require(_cmp(got, ref), f"{m} changes under relabelling / insertion order")


BUILD_MEASURES = ["degree", "size", "incidence_matrix", "connected_components", "maximal", "density"]


@harness("C09.build", raises_are_violations=True)
def build(ctx, p):
    """The same comparison for networks built through the public API (add_edge with
    explicit ids in the given insertion order) instead of directly in the tables:
    an id such as 0, a negative id or a non-increasing id sequence must not change
    any structural quantity."""
    shape = _shape(p["shape"])
    N, M, edges = shape
    lo, hi = WINDOW
    nl = [ctx.int(f"n{i}", lo, hi, kind="L", group="n") for i in range(N)]
    el = [ctx.int(f"e{j}", lo, hi, kind="L", group="e") for j in range(M)]
    ctx.distinct(nl)
    ctx.distinct(el)
    no, eo = p["order"]
    H = xgi.Hypergraph()
    H._edge_uid = ctx.counter(0)
    with warnings.catch_warnings():
        warnings.simplefilter("ignore")
        H.add_nodes_from([nl[i] for i in no])
        for j in eo:
            H.add_edge([nl[i] for i in edges[j]], idx=el[j])
    ctx.info["op"] = "api-built:" + p["measure"]
    ctx.info["args"] = {"nodes": nl, "edges": el, "node_order": no, "edge_order": eo}
    ctx.require(len(H._edge) == M and all(e in H._edge for e in el), "a network built with explicit ids does not have exactly the requested edge ids")
    if not (len(H._edge) == M and all(e in H._edge for e in el)):
        return
    m = p["measure"]
    ref = reference(shape, m)
    got = _run(m, H, nl, el)
    if got[0] == "exc" and ref[0] != "exc":
        ctx.require(False, f"{m} raises under relabelling although it is defined on the canonical labelling")
    else:
        ctx.require(_cmp(got, ref), f"{m} changes under relabelling / insertion order")


def _weighted_nl(H, nl, el):
    W = [1.0, 5.0, 2.0, 0.5]
    for j, e in enumerate(el):
        H._edge_attr[e]["weight"] = W[j % 4]
    out = xgi.normalized_hypergraph_laplacian(H, weighted=True, sparse=False, index=True)
    return matrix(lambda _H: out, "n", "n")(H, nl, el)


MEASURES["normalized_laplacian_weighted"] = _weighted_nl
MEASURES["degree_mode"] = scalar(lambda H: H.nodes.degree.mode())
MEASURES["size_mode"] = scalar(lambda H: H.edges.size.mode())
MEASURES["degree_median_max_min"] = scalar(lambda H: (H.nodes.degree.median(), H.nodes.degree.max(), H.nodes.degree.min()))
HASH_MEASURES = ["normalized_laplacian_weighted", "degree_mode", "size_mode", "degree", "size", "duplicates", "maximal", "degree_matrix", "laplacian", "adjacency_matrix", "incidence_matrix",
                 "intersection_profile", "edit_simpliciality", "connected_components", "clustering_coefficient", "net_degree", "net_size"]
MEASURES["net_degree"] = node_dict(lambda H: H.degree())
MEASURES["net_size"] = edge_dict(lambda H: H.size())


@harness("C09.hash", raises_are_violations=True)
def hashed(ctx, p):
    """Real hashing: labels are forked exhaustively over a window that contains
    negatives (hash(-1) == hash(-2)) and values whose set order differs from
    insertion order; the network is built through the public API with the core
    stubs removed."""
    shape = _shape(p["shape"])
    N, M, edges = shape
    pool = [-2, -1, 0, 1, 8, 3]
    nl = []
    for i in range(N):
        nl.append(pool.pop(ctx.choose(f"n{i}", len(pool))))
    el = [5, 2, 9, 0][:M]
    no, eo = p["order"]
    m = p["measure"]
    ctx.info["op"] = "real-hash:" + m
    ctx.info["args"] = {"nodes": nl, "edges": el, "node_order": no, "edge_order": eo}
    with stubs.uninstalled(), warnings.catch_warnings():
        warnings.simplefilter("ignore")
        H = xgi.Hypergraph()
        H.add_nodes_from([nl[i] for i in no])
        for j in eo:
            mem = [nl[i] for i in edges[j]]
            if p.get("mrev") and j % 2 == 1:
                mem.reverse()  # members of alternate edges listed in the opposite order
            H.add_edge(mem, idx=el[j])
        ref = reference(shape, m)
        got = _run(m, H, nl, el)
    if got[0] == "exc" and ref[0] != "exc":
        ctx.require(False, f"{m} raises under relabelling although it is defined on the canonical labelling")
    else:
        ctx.require(_cmp(got, ref), f"{m} changes under relabelling / insertion order")


def spec(tier, seed):
    import itertools

    if tier == "quick":
        shp = [s for s in shapes.shapes_H_upto(3, 2) + shapes.shapes_H(3, 3) + shapes.shapes_H(4, 2) if s[0] > 0]
        shp = shp[:: 1]
    else:
        shp = [s for s in shapes.shapes_H_upto(4, 3) if s[0] > 0]
    units = []
    for s in shp:
        N, M = s[0], s[1]
        orders = [(list(range(N)), list(range(M)))]
        if N > 1 or M > 1:
            orders.append((list(reversed(range(N))), list(reversed(range(M)))))
        if tier != "quick":
            for no in itertools.permutations(range(N)):
                for eo in itertools.permutations(range(M)):
                    if (list(no), list(eo)) not in orders and (N <= 3 and M <= 3):
                        orders.append((list(no), list(eo)))
        for m in MEASURES:
            if m in ASSORT:
                sizes = {len(e) for e in s[2]}
                if M == 0 or 0 in sizes or 1 in sizes:
                    continue
                if m != "dynamical_assortativity" and False:
                    continue
                if m == "dynamical_assortativity" and (len(sizes) != 1):
                    continue
            for k, o in enumerate(orders):
                units.append(("C09.relabel", {"shape": s, "measure": m, "order": o, "rev": bool(k % 2)}))
                if m in BUILD_MEASURES and M > 0 and N + M <= 5:
                    units.append(("C09.build", {"shape": s, "measure": m, "order": o}))
    hshapes = [s for s in shapes.shapes_H(3, 2) + shapes.shapes_H(2, 2) if all(len(e) > 0 for e in s[2])]
    if tier != "quick":
        hshapes += [s for s in shapes.shapes_H(3, 3) if all(len(e) > 0 for e in s[2])][::3]
    for s in hshapes:
        N, M = s[0], s[1]
        for o in ((list(range(N)), list(range(M))), (list(reversed(range(N))), list(reversed(range(M))))):
            for m in HASH_MEASURES:
                units.append(("C09.hash", {"shape": s, "measure": m, "order": o}))
        for m in HASH_MEASURES:
            units.append(("C09.hash", {"shape": s, "measure": m, "order": (list(range(N)), list(range(M))), "mrev": True}))
    return {
        "units": units,
        "caps": {"paths": 50000, "wall": 600},
        "level": "model_checking",
        "allow_unsupported": False,
        "bounds": {"shapes": f"{len(shp)} shapes", "labels": f"node labels and edge ids: integers in [{WINDOW[0]},{WINDOW[1]}], pairwise distinct within their kind (window needed so that list[id] is reachable by exhaustive forking)",
                   "insertion orders": "identity and reversed (quick); all permutations for <=3 nodes/edges (thorough)", "measures": sorted(MEASURES)},
        "assumptions": ["reference = the same shape labelled 0..n-1 / 0..m-1 inserted in order, computed concretely on the unmodified library",
                        "floats compared with relative tolerance 1e-9 (summation order may differ)"],
        "outside": ["string labels", "labels outside the window", "set-iteration orders other than insertion order"],
    }
