"""C04 Automatic edge ids are always fresh; adding never overwrites.

Fresh(s): the id counter exceeds every integer-like edge id present.  Decided as
(1) an inductive step: from every small state with Fresh, any one mutator with
symbolic ids (0, negative, non-increasing, colliding ids are all in the model
space) re-establishes Fresh, and a following automatic addition gets an id that
is not present and leaves every existing edge untouched; (2) base cases: every
way of obtaining a network yields Fresh; (3) an explicit id that is present is
refused with a warning and changes nothing."""
import pickle
import warnings

import xgi

from .. import nets, ops, shapes, stubs
from ..nets import intlike
from ..runner import harness
from ..symx import SymInt

# C04 is about ids and the counter, not membership: member lists are kept short
# (except add_simplex, whose faces draw automatic ids)
P = {"members": 2, "bulk": 2, "bulk_members": 1, "dimembers": 1, "bulk_dimembers": 1,
     "smembers": 3, "sbulk_first": 3, "sbulk_rest": 1, "max_orders": [None, 1]}


def _shape(p):
    s = p["shape"]
    if p["cls"] == "D":
        return (s[0], s[1], tuple((tuple(t), tuple(h)) for t, h in s[2]))
    return (s[0], s[1], tuple(tuple(e) for e in s[2]))


def _build(ctx, p):
    s = _shape(p)
    if p["cls"] == "H":
        return nets.build_H(ctx, s, attrs=True)[0]
    if p["cls"] == "S":
        return nets.build_H(ctx, s, cls=xgi.SimplicialComplex, attrs=True)[0]
    return nets.build_D(ctx, s, attrs=True)[0]


def check_fresh(ctx, net, where):
    """Fresh + behavioural consequence: one automatic addition collides with
    nothing and changes no existing edge."""
    nets.reencode(net)
    c = stubs.counter_value(net._edge_uid)
    for e in list(net._edge):
        if intlike(e):
            ctx.require(c > e, f"{where}: id counter does not exceed an integer edge id present")
    before = nets.snap(net)
    x, y = ctx.fresh("x"), ctx.fresh("x")
    # two brand-new nodes: the members of the automatic edge are irrelevant here
    ctx.assume(x != y, *[x != n for n in net._node], *[y != n for n in net._node])
    with warnings.catch_warnings():
        warnings.simplefilter("ignore")
        if isinstance(net, xgi.SimplicialComplex):
            net.add_simplex([x, y])
        elif isinstance(net, xgi.DiHypergraph):
            net.add_edge(([x], [y]))
        else:
            net.add_edge([x, y])
    after = nets.snap(net)
    ok = True
    for e in before["edges"]:
        if e not in after["members"]:
            ok = False
        elif not nets.same(before["members"][e], after["members"][e]):
            ok = False
        elif not nets.same(before["edge_attr"][e], after["edge_attr"].get(e)):
            ok = False
    ctx.require(ok, f"{where}: an automatic addition altered or replaced an existing edge")
    grew = len(after["edges"]) > len(before["edges"])
    if not grew and isinstance(net, xgi.SimplicialComplex):
        # add_simplex of an already present simplex is a documented no-op
        grew = any(nets.same(m, {x, y}) for m in before["members"].values())
    ctx.require(grew, f"{where}: an automatic addition did not create a new edge")


OPS = {"H": ops.OPS_H, "D": ops.OPS_D, "S": ops.OPS_S}
HEAVY = {"H": ops.HEAVY_H, "D": ops.HEAVY_D, "S": ops.HEAVY_S}


@harness("C04.step")
def step(ctx, p):
    net = _build(ctx, p)
    ctx.info["op"] = p["op"]
    pre = nets.snap(net)
    with stubs.rng(ctx, "xgi.core.hypergraph"):
        outcome, exc, w = ops.apply(ctx, net, OPS[p["cls"]][p["op"]], P)
    ctx.info["outcome"] = outcome if exc is None else f"raised {type(exc).__name__}"
    if ctx.symbolic:
        nets.check_tables(net)
    if p["op"] in ops.ADD_ONLY:
        post = nets.snap(net)
        ok = True
        for e in pre["edges"]:
            if e not in post["members"] or not nets.same(pre["members"][e], post["members"][e]):
                ok = False
            elif not nets.same(pre["edge_attr"][e], post["edge_attr"].get(e)):
                ok = False
        ctx.require(ok, "an addition altered, replaced or removed an existing edge")
        exp = ctx.info.pop("expect_edge", None)
        if exp is not None and exp[0] is not None and outcome == "returned":
            idx, mem = exp
            if idx not in pre["members"]:  # a fresh explicit id must now name exactly this edge
                present = idx in post["members"]
                if p["cls"] == "S":
                    # documented no-ops: simplex already present (by members) or empty
                    dup = len(mem) == 0 or any(nets.same(m, mem) for m in pre["members"].values())
                    if not dup:
                        ctx.require(present and nets.same(post["members"][idx], mem), "explicit fresh id does not name the added simplex")
                else:
                    ctx.require(present and nets.same(post["members"][idx], mem), "explicit fresh id does not name the added edge")
        bulk = ctx.info.pop("expect_bulk", None)
        if bulk is not None and outcome == "returned" and p["cls"] != "S":
            # first entry with a fresh id wins; later entries with the same id are refused
            claimed = []
            for idx, mem in bulk:
                if idx in pre["members"] or any(nets.same(idx, c) for c in claimed):
                    continue
                claimed.append(idx)
                ok = idx in post["members"] and nets.same(post["members"][idx], mem)
                ctx.require(ok, "bulk add: a fresh explicit id does not name the first edge given for it")
    ctx.info.pop("expect_edge", None)
    ctx.info.pop("expect_bulk", None)
    check_fresh(ctx, net, "after " + p["op"])


@harness("C04.dup")
def dup(ctx, p):
    """An explicit id that already exists is refused with a warning; nothing changes."""
    net = _build(ctx, p)
    if not net._edge:
        ctx.assume(False)
    ids = list(net._edge)
    e = ids[ctx.choose("which", len(ids))]
    a, b = ctx.fresh(), ctx.fresh()
    before = nets.snap(net, counter=False)
    how = p["how"]
    ctx.info["op"] = how
    ctx.info["args"] = {"idx": e, "members": [a, b]}
    with warnings.catch_warnings(record=True) as w:
        warnings.simplefilter("always")
        if p["cls"] == "H":
            mem = [a, b]
            if how == "add_edge":
                net.add_edge(mem, idx=e)
            elif how == "fmt2":
                net.add_edges_from([(mem, e)])
            elif how == "fmt4":
                net.add_edges_from([(mem, e, {"k": a})])
            else:
                net.add_edges_from({e: mem})
        elif p["cls"] == "D":
            mem = ([a], [b])
            if how == "add_edge":
                net.add_edge(mem, idx=e)
            elif how == "fmt2":
                net.add_edges_from([(mem, e)])
            elif how == "fmt4":
                net.add_edges_from([(mem, e, {"k": a})])
            else:
                net.add_edges_from({e: mem})
        else:
            mem = [a, b]
            ctx.assume(a != b)
            # not already a simplex (otherwise the documented silent no-op applies)
            for m in net._edge.values():
                if nets.same(set(m), {a, b}):
                    ctx.assume(False)
            if how == "add_edge":
                net.add_simplex(mem, idx=e)
            elif how == "fmt2":
                net.add_simplices_from([(mem, e)])
            elif how == "fmt4":
                net.add_simplices_from([(mem, e, {"k": a})])
            else:
                net.add_simplices_from({e: mem})
    ctx.require(len(w) > 0, "explicit existing id: no warning")
    ctx.require(nets.same(before, nets.snap(net)), "explicit existing id: network changed")


# ---------------------------------------------------------------------------
# provenance base cases
# ---------------------------------------------------------------------------
def _ids(ctx, n):
    ids = [ctx.fresh("i") for _ in range(n)]
    ctx.assume(*[ids[i] != ids[j] for i in range(n) for j in range(i)])
    return ids


def _mkdict(ids, vals):
    d = {}
    for i, v in zip(ids, vals):
        d[i] = v
    return d


def prov_H_list(ctx):
    a, b, c = ctx.fresh(), ctx.fresh(), ctx.fresh()
    return xgi.Hypergraph([[a, b], [b, c]])


def prov_H_dict(ctx):
    a, b, c = ctx.fresh(), ctx.fresh(), ctx.fresh()
    i, j = _ids(ctx, 2)
    return xgi.Hypergraph(_mkdict([i, j], [[a, b], [b, c]]))


def prov_H_dict3(ctx):
    a, b = ctx.fresh(), ctx.fresh()
    i, j, k = _ids(ctx, 3)
    return xgi.Hypergraph(_mkdict([i, j, k], [[a, b], [b], [a]]))


def _srcH(ctx):
    a, b, c = ctx.fresh(), ctx.fresh(), ctx.fresh()
    i, j = _ids(ctx, 2)
    H = xgi.Hypergraph()
    H.add_edges_from(_mkdict([i, j], [[a, b], [b, c]]))
    return H


def prov_H_from_H(ctx):
    return xgi.Hypergraph(_srcH(ctx))


def prov_H_from_SC(ctx):
    a, b, c = ctx.fresh(), ctx.fresh(), ctx.fresh()
    i = ctx.fresh("i")
    S = xgi.SimplicialComplex()
    S.add_simplex([a, b, c], idx=i)
    return xgi.Hypergraph(S)


def prov_H_from_D(ctx):
    return xgi.Hypergraph(_srcD(ctx))


def prov_S_list(ctx):
    a, b, c = ctx.fresh(), ctx.fresh(), ctx.fresh()
    return xgi.SimplicialComplex([[a, b, c], [a, b]])


def prov_S_dict(ctx):
    a, b, c = ctx.fresh(), ctx.fresh(), ctx.fresh()
    i, j = _ids(ctx, 2)
    return xgi.SimplicialComplex(_mkdict([i, j], [[a, b, c], [b, c]]))


def prov_S_from_H(ctx):
    return xgi.SimplicialComplex(_srcH(ctx))


def prov_S_from_S(ctx):
    a, b, c = ctx.fresh(), ctx.fresh(), ctx.fresh()
    i = ctx.fresh("i")
    S = xgi.SimplicialComplex()
    S.add_simplex([a, b, c], idx=i)
    return xgi.SimplicialComplex(S)


def _srcD(ctx):
    a, b, c = ctx.fresh(), ctx.fresh(), ctx.fresh()
    i, j = _ids(ctx, 2)
    D = xgi.DiHypergraph()
    D.add_edges_from(_mkdict([i, j], [([a], [b]), ([b], [c])]))
    return D


def prov_D_list(ctx):
    a, b, c = ctx.fresh(), ctx.fresh(), ctx.fresh()
    return xgi.DiHypergraph([([a], [b]), ([b], [c])])


def prov_D_dict(ctx):
    a, b, c = ctx.fresh(), ctx.fresh(), ctx.fresh()
    i, j = _ids(ctx, 2)
    return xgi.DiHypergraph(_mkdict([i, j], [([a], [b]), ([b], [c])]))


def prov_D_from_D(ctx):
    return xgi.DiHypergraph(_srcD(ctx))


def prov_from_hyperedge_list(ctx):
    a, b, c = ctx.fresh(), ctx.fresh(), ctx.fresh()
    return xgi.from_hyperedge_list([[a, b], [b, c]])


def prov_from_hyperedge_dict(ctx):
    a, b, c = ctx.fresh(), ctx.fresh(), ctx.fresh()
    i, j = _ids(ctx, 2)
    return xgi.from_hyperedge_dict(_mkdict([i, j], [[a, b], [b, c]]))


def prov_from_bipartite_edgelist(ctx):
    a, b = ctx.fresh(), ctx.fresh()
    i, j = _ids(ctx, 2)
    return xgi.from_bipartite_edgelist([(a, i), (b, i), (b, j)])


def prov_from_bipartite_edgelist_D(ctx):
    a, b = ctx.fresh(), ctx.fresh()
    i, j = _ids(ctx, 2)
    return xgi.from_bipartite_edgelist([(a, i, "in"), (b, i, "out"), (b, j, "in")])


def prov_from_bipartite_graph(ctx):
    import networkx as nx

    a, b = ctx.fresh(), ctx.fresh()
    i, j = _ids(ctx, 2)
    ctx.assume(a != b, a != i, a != j, b != i, b != j)
    G = nx.Graph()
    G.add_node(a, bipartite=0)
    G.add_node(b, bipartite=0)
    G.add_node(i, bipartite=1)
    G.add_node(j, bipartite=1)
    G.add_edges_from([(a, i), (b, i), (b, j)])
    return xgi.from_bipartite_graph(G)


def prov_from_bipartite_dataframe(ctx):
    import pandas as pd

    a, b = ctx.fresh(), ctx.fresh()
    i, j = _ids(ctx, 2)
    df = pd.DataFrame({"n": pd.Series([a, b, b], dtype=object), "e": pd.Series([i, i, j], dtype=object)})
    return xgi.from_bipartite_pandas_dataframe(df, node_column="n", edge_column="e")


def prov_H_dataframe_ctor(ctx):
    import pandas as pd

    a, b = ctx.fresh(), ctx.fresh()
    i, j = _ids(ctx, 2)
    df = pd.DataFrame({"n": pd.Series([a, b, b], dtype=object), "e": pd.Series([i, i, j], dtype=object)})
    return xgi.Hypergraph(df)


def prov_from_incidence_matrix(ctx):
    import numpy as np

    return xgi.from_incidence_matrix(np.array([[1, 0], [1, 1], [0, 1]]))


def prov_H_incidence_ctor(ctx):
    import numpy as np

    return xgi.Hypergraph(np.array([[1, 0], [1, 1], [0, 1]]))


def prov_from_incidence_matrix_labels(ctx):
    import numpy as np

    i, j = _ids(ctx, 2)
    a, b, c = ctx.fresh(), ctx.fresh(), ctx.fresh()
    ctx.assume(a != b, a != c, b != c)
    return xgi.from_incidence_matrix(
        np.array([[1, 0], [1, 1], [0, 1]]), nodelabels=[a, b, c], edgelabels=[i, j]
    )


def prov_from_hif_dict(ctx):
    a, b = ctx.fresh(), ctx.fresh()
    i, j = _ids(ctx, 2)
    d = {
        "network-type": "undirected",
        "incidences": [{"edge": i, "node": a}, {"edge": i, "node": b}, {"edge": j, "node": b}],
    }
    return xgi.from_hif_dict(d)


def prov_from_hif_dict_edges(ctx):
    a = ctx.fresh()
    i, j = _ids(ctx, 2)
    d = {
        "network-type": "undirected",
        "incidences": [{"edge": i, "node": a}],
        "edges": [{"edge": j}],
    }
    return xgi.from_hif_dict(d)


def prov_from_hif_dict_D(ctx):
    a, b = ctx.fresh(), ctx.fresh()
    i, j = _ids(ctx, 2)
    d = {
        "network-type": "directed",
        "incidences": [
            {"edge": i, "node": a, "direction": "tail"},
            {"edge": i, "node": b, "direction": "head"},
            {"edge": j, "node": b, "direction": "tail"},
        ],
    }
    return xgi.from_hif_dict(d)


def prov_from_hif_dict_S(ctx):
    a, b, c = ctx.fresh(), ctx.fresh(), ctx.fresh()
    i = ctx.fresh("i")
    ctx.assume(a != b, a != c, b != c)
    d = {
        "network-type": "asc",
        "incidences": [{"edge": i, "node": a}, {"edge": i, "node": b}, {"edge": i, "node": c}],
    }
    return xgi.from_hif_dict(d)


def prov_from_hypergraph_dict(ctx):
    # ids travel as strings in the standard dict; enumerate the small ints concretely
    i = ctx.choose("i", 4)
    j = ctx.choose("j", 4)
    ctx.assume(i != j)
    d = {
        "hypergraph-data": {},
        "node-data": {"1": {}, "2": {}},
        "edge-data": {str(i): {}, str(j): {}},
        "edge-dict": {str(i): ["1", "2"], str(j): ["2"]},
    }
    return xgi.from_hypergraph_dict(d, nodetype=int, edgetype=int)


def prov_parse_edgelist(ctx):
    from xgi.readwrite.edgelist import parse_edgelist

    return parse_edgelist(["1 2", "2 3 4"], nodetype=int)


def prov_parse_bipartite_edgelist(ctx):
    from xgi.readwrite.bipartite import parse_bipartite_edgelist

    i = ctx.choose("i", 4)
    j = ctx.choose("j", 4)
    ctx.assume(i != j)
    return parse_bipartite_edgelist([f"1 {i}", f"2 {i}", f"2 {j}"], nodetype=int, edgetype=int)


def prov_copy(ctx, p):
    return _build(ctx, p).copy()


def prov_pickle(ctx, p):
    return pickle.loads(pickle.dumps(_build(ctx, p)))


def prov_convert_labels(ctx, p):
    return xgi.convert_labels_to_integers(_build(ctx, p))


def prov_dual(ctx, p):
    return _build(ctx, p).dual()


def prov_lshift(ctx, p):
    H1 = _build(ctx, p)
    H2 = nets.build_H(ctx, _shape(p), tag="b")[0]
    return H1 << H2


def prov_subhypergraph_copy(ctx, p):
    H = _build(ctx, p)
    keep = [e for k, e in enumerate(list(H._edge)) if ctx.flag(f"keep{k}")]
    return xgi.subhypergraph(H, edges=keep).copy()


def prov_cleanup_copy(ctx, p):
    H = _build(ctx, p)
    return H.cleanup(in_place=False, connected=False, relabel=ctx.flag("relabel"))


def prov_generators(ctx):
    k = ctx.choose("gen", 8)
    if k == 0:
        return xgi.complete_hypergraph(4, order=1)
    if k == 1:
        return xgi.random_hypergraph(4, [0.9, 0.5], seed=1)
    if k == 2:
        return xgi.ring_lattice(5, 2, 2, 0)
    if k == 3:
        return xgi.star_clique(3, 3, 2)
    if k == 4:
        return xgi.sunflower(3, 1, 3)
    if k == 5:
        return xgi.random_simplicial_complex(5, [0.8, 0.5], seed=2)
    if k == 6:
        return xgi.uniform_erdos_renyi_hypergraph(5, 2, 0.8, seed=3)
    return xgi.flag_complex_d2(__import__("networkx").complete_graph(4))


PROV_PLAIN = {
    f.__name__[5:]: f
    for f in [
        prov_H_list,
        prov_H_dict,
        prov_H_dict3,
        prov_H_from_H,
        prov_H_from_SC,
        prov_H_from_D,
        prov_S_list,
        prov_S_dict,
        prov_S_from_H,
        prov_S_from_S,
        prov_D_list,
        prov_D_dict,
        prov_D_from_D,
        prov_from_hyperedge_list,
        prov_from_hyperedge_dict,
        prov_from_bipartite_edgelist,
        prov_from_bipartite_edgelist_D,
        prov_from_bipartite_graph,
        prov_from_bipartite_dataframe,
        prov_H_dataframe_ctor,
        prov_from_incidence_matrix,
        prov_H_incidence_ctor,
        prov_from_incidence_matrix_labels,
        prov_from_hif_dict,
        prov_from_hif_dict_edges,
        prov_from_hif_dict_D,
        prov_from_hif_dict_S,
        prov_from_hypergraph_dict,
        prov_parse_edgelist,
        prov_parse_bipartite_edgelist,
        prov_generators,
    ]
}
PROV_STATE = {
    f.__name__[5:]: f
    for f in [prov_copy, prov_pickle, prov_convert_labels, prov_dual, prov_lshift, prov_subhypergraph_copy, prov_cleanup_copy]
}


@harness("C04.prov")
def prov(ctx, p):
    ctx.info["op"] = "provenance:" + p["how"]
    if p["how"] in PROV_PLAIN:
        net = PROV_PLAIN[p["how"]](ctx)
    else:
        net = PROV_STATE[p["how"]](ctx, p)
    ctx.info["args"] = {"ids": nets.describe(list(net._edge))}
    check_fresh(ctx, net, "provenance " + p["how"])


@harness("C04.uid")
def uid(ctx, p):
    """Contract of update_uid_counter in isolation, all integers."""
    from xgi.utils.utilities import update_uid_counter

    H = xgi.Hypergraph()
    c = ctx.label("c")
    ctx.assume(c >= 0)
    H._edge_uid = ctx.counter(c)
    kind = p["kind"]
    ctx.info["op"] = "update_uid_counter:" + kind
    if kind == "int":
        idx = ctx.fresh("i")
    elif kind == "str":
        idx = "label"
    else:
        idx = (ctx.fresh("i"), ctx.fresh("i"))
    ctx.info["args"] = {"counter": c, "idx": idx}
    update_uid_counter(H, idx)
    c2 = stubs.counter_value(H._edge_uid)
    ctx.require(c2 >= c, "update_uid_counter moved the counter backwards")
    if kind == "int":
        ctx.require(c2 > idx, "update_uid_counter left the counter at or below the integer id")
        ctx.require((c2 == c) | (c2 == idx + 1), "update_uid_counter jumped to an unexpected value")
    else:
        ctx.require(c2 == c, "update_uid_counter changed the counter for a non-integer id")


NUMERIC_IDS = ["0.0", "2.0", "np.int64(1)", "np.int32(3)", "np.float64(2.0)", "True", "1.5", "-1.0"]


@harness("C04.numeric")
def numeric(ctx, p):
    """Integer-like ids of other numeric types (floats with integral value, numpy
    integers and floats): concrete values from a pool, real itertools.count, then
    enough automatic additions to reach the value - also after copy() and a pickle
    round trip.  No solver variable except the pool choice and the route."""
    import numpy as np

    src = NUMERIC_IDS[ctx.choose("id", len(NUMERIC_IDS))]
    idv = eval(src, {"np": np})
    route = ["add_edge", "fmt2", "fmt5", "add_node_to_edge"][ctx.choose("route", 4)]
    then = ["direct", "copy", "pickle"][ctx.choose("then", 3)]
    cls = p["cls"]
    ctx.info["op"] = "numeric id"
    ctx.info["args"] = {"id": src, "route": route, "then": then}
    with stubs.uninstalled(), warnings.catch_warnings():
        warnings.simplefilter("ignore")
        net = {"H": xgi.Hypergraph, "D": xgi.DiHypergraph, "S": xgi.SimplicialComplex}[cls]()
        mem = ([10], [11]) if cls == "D" else [10, 11]
        if route == "add_edge":
            (net.add_simplex if cls == "S" else net.add_edge)(mem, idx=idv)
        elif route == "fmt2":
            (net.add_simplices_from if cls == "S" else net.add_edges_from)([(mem, idv)])
        elif route == "fmt5":
            (net.add_simplices_from if cls == "S" else net.add_edges_from)({idv: mem})
        else:
            if cls == "S":
                ctx.assume(False)
            if cls == "D":
                net.add_node_to_edge(idv, 10, "in")
                net.add_node_to_edge(idv, 11, "out")
            else:
                net.add_node_to_edge(idv, 10)
                net.add_node_to_edge(idv, 11)
        if then == "copy":
            net = net.copy()
        elif then == "pickle":
            net = pickle.loads(pickle.dumps(net))
        before = nets.snap(net)
        for k in range(5):
            m2 = ([20 + k], [30 + k]) if cls == "D" else [20 + k, 30 + k]
            (net.add_simplex if cls == "S" else net.add_edge)(m2)
        after = nets.snap(net)
    bad = nets.inv_D(net) if cls == "D" else nets.inv_H(net)
    ctx.require(not bad, "incidence invariant broken after automatic additions next to an integer-like id of another numeric type")
    ok = all(e in after["members"] and nets.same(before["members"][e], after["members"][e]) for e in before["edges"])
    ctx.require(ok, "an automatic addition altered or replaced an edge whose id is an integer-like number of another type")
    ctx.require(len(after["edges"]) == len(before["edges"]) + 5, "automatic additions were lost after an integer-like id of another numeric type")


def spec(tier, seed):
    units = []
    if tier == "quick":
        sh = {"H": shapes.shapes_H_upto(2, 2), "D": shapes.shapes_D_upto(2, 1) + shapes.shapes_D(1, 2), "S": shapes.shapes_S_upto(3)}
        small = {"H": set(shapes.shapes_H_upto(2, 1) + shapes.shapes_H(1, 2)), "D": set(shapes.shapes_D_upto(1, 1)), "S": set(shapes.shapes_S_upto(2))}
    else:
        sh = {"H": shapes.shapes_H_upto(3, 2) + shapes.shapes_H(2, 3), "D": shapes.shapes_D_upto(2, 1) + shapes.shapes_D(1, 2) + shapes.shapes_D(2, 2)[::2], "S": shapes.shapes_S_upto(3) + shapes.shapes_S(4, 0)[::3]}
        small = {"H": set(shapes.shapes_H_upto(2, 1) + shapes.shapes_H(1, 2) + shapes.shapes_H(2, 2)[::2]), "D": set(shapes.shapes_D_upto(1, 1) + shapes.shapes_D(2, 1)[::3]), "S": set(shapes.shapes_S_upto(2) + shapes.shapes_S(3, 0)[:3])}
    for cls in "HDS":
        for s in sh[cls]:
            for op in OPS[cls]:
                if op in HEAVY[cls] and s not in small[cls]:
                    continue
                units.append(("C04.step", {"cls": cls, "shape": s, "op": op}))
            if s[1]:
                for how in ("add_edge", "fmt2", "fmt4", "fmt5"):
                    units.append(("C04.dup", {"cls": cls, "shape": s, "how": how}))
    for how in PROV_PLAIN:
        units.append(("C04.prov", {"how": how, "cls": "-", "shape": None}))
    for how in PROV_STATE:
        for cls in "HDS":
            if how in ("dual", "lshift", "subhypergraph_copy") and cls != "H":
                continue
            if how == "cleanup_copy" and cls != "H":
                continue
            for s in small[cls]:
                units.append(("C04.prov", {"how": how, "cls": cls, "shape": s}))
    for k in ("int", "str", "tuple"):
        units.append(("C04.uid", {"kind": k, "cls": "-", "shape": None}))
    for cls in "HDS":
        units.append(("C04.numeric", {"cls": cls, "shape": None, "kind": "numeric"}))
    return {
        "units": units,
        "caps": {"paths": 200000 if tier == "quick" else 2000000, "wall": 600 if tier == "quick" else 3000},
        "level": "model_checking",
        "bounds": {
            "shapes": {k: f"{len(v)} shapes" for k, v in sh.items()},
            "ids": "counter and every explicit id: unbounded integers (0, negative, non-increasing, colliding all in the model space); one concrete string/tuple id",
            "steps": "one mutator then one automatic addition; provenance base cases",
        },
        "assumptions": [
            "pre-state satisfies the class invariant and Fresh",
            "itertools.count replaced by scount; float()/int() shadows in utilities (ids assumed below 2**53 so float() is exact)",
            "ids that travel as strings (standard dict, text parsers) are enumerated over 0..3 instead of symbolic",
        ],
        "outside": ["symbolic non-int numeric ids (floats and numpy scalars are covered by a concrete pool in C04.numeric)", "read_* functions on real files (C11)"],
    }
