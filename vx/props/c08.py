"""C08 Read-only API never mutates the network it is given.

The callables are enumerated by introspection at run time: every public function
of the package whose first parameter is a network (by parameter name and by a
probe call), the class constructors, and the read-only methods of networks,
views and stats.  Arguments come from a name-based recipe table; callables with
no recipe are listed in the evidence as not exercised.  Per (callable, shape):
deep snapshot of the argument network (tables, order, attributes, next automatic
id) before and after, on every path; the returned object is then mutated by the
harness (sets, dicts, returned networks) and the snapshot is compared again."""
import inspect
import os
import tempfile
import warnings

import matplotlib

matplotlib.use("Agg")
import numpy as np
import xgi

from .. import nets, shapes, stubs, symx
from ..runner import harness

NETWORK_PARAMS = ("H", "net", "S", "SC", "DH", "network", "hypergraph", "data", "incoming_data")
DOCUMENTED_MUTATORS = {"update_uid_counter"}  # internal helper documented to set the counter
SKIP = {"download_xgi_data", "load_xgi_data", "load_bigg_data", "simulate_kuramoto", "simulate_simplicial_kuramoto",
        "draw_multilayer"}
TMP = tempfile.mkdtemp(prefix="vx_c08_")


def discover():
    out = {}
    for n in sorted(dir(xgi)):
        if n.startswith("_"):
            continue
        f = getattr(xgi, n)
        if not callable(f):
            continue
        if inspect.isclass(f):
            if f in (xgi.Hypergraph, xgi.DiHypergraph, xgi.SimplicialComplex):
                out[n] = f
            continue
        try:
            ps = list(inspect.signature(f).parameters)
        except (TypeError, ValueError):
            continue
        if ps and ps[0] in NETWORK_PARAMS and n not in DOCUMENTED_MUTATORS:
            if ps[0] in ("data", "incoming_data"):
                # ambiguous name: keep it only if a probe call accepts a network
                try:
                    with warnings.catch_warnings():
                        warnings.simplefilter("ignore")
                        f(xgi.Hypergraph([[1, 2], [2, 3]]))
                except Exception:
                    continue
            out[n] = f
    return out


def recipe(ctx, name, f, net, nl, el, sym, flags=False):
    """kwargs for the parameters without default; None if no recipe."""
    sig = inspect.signature(f)
    kw = {}
    params = list(sig.parameters.items())[1:]
    for pname, par in params:
        if par.kind in (par.VAR_POSITIONAL, par.VAR_KEYWORD):
            continue
        need = par.default is inspect._empty
        if pname == "order" and (need or name in ("node_swap", "adjacency_matrix", "incidence_matrix", "degree_matrix", "laplacian", "boundary_matrix", "hodge_laplacian", "density", "degree_counts")):
            kw[pname] = [1, 2, None][ctx.choose("order", 3 if not need else 2)]
        elif pname in ("n", "source") and need:
            if not nl:
                return None
            kw[pname] = nl[ctx.choose("node", len(nl))]
        elif pname in ("nid1",) and need:
            if len(nl) < 2:
                return None
            kw["nid1"], kw["nid2"] = nl[0], nl[1]
        elif pname == "nid2":
            continue
        elif pname == "d" and need:
            kw[pname] = 1
        elif pname in ("pos", "node_pos") and need:
            kw[pname] = {n: (float(i), float(i * i % 3)) for i, n in enumerate(net._node)}
        elif pname == "p" and need:
            kw[pname] = 0.5
        elif pname == "orders" and need:
            kw["orders"], kw["weights"] = [1, 2], [1.0, 1.0]
        elif pname == "weights" and need:
            continue
        elif pname == "path" and need:
            kw[pname] = os.path.join(TMP, f"{name}_{os.getpid()}.out")
        elif pname == "dag" and need:
            kw[pname] = xgi.to_encapsulation_dag(net)
        elif pname == "in_place":
            kw[pname] = False
        elif pname == "seed":
            kw[pname] = 1
        elif pname == "num_samples":
            kw[pname] = 5
        elif pname == "exact":
            kw[pname] = True
        elif pname == "nodes" and name == "subhypergraph":
            kw[pname] = [n for i, n in enumerate(nl) if ctx.flag(f"pick{i}")]
        elif pname == "index":
            kw[pname] = True
        elif isinstance(par.default, bool) and flags:
            kw[pname] = ctx.flag("flag_" + pname)  # both values of every boolean option
        elif need:
            return None
    return kw


def mutate_result(r, depth=0):
    """Edit whatever was handed out: an internal container returned without a copy
    would make the edit visible in the input."""
    try:
        if isinstance(r, (xgi.Hypergraph, xgi.DiHypergraph)):
            r._net_attr["__vx__"] = 1
            for a in list(r._node_attr.values())[:1] + list(r._edge_attr.values())[:1]:
                a["__vx__"] = 1
            for s in list(r._node.values()) + list(r._edge.values()):
                if isinstance(s, set):
                    s.add("__vx__")
                elif isinstance(s, dict):
                    for t in s.values():
                        t.add("__vx__")
            if not r.is_frozen:
                r.add_node("__vx_node__")
        elif isinstance(r, set):
            r.add("__vx__")
        elif isinstance(r, dict):
            # attribute dicts are live by design (H.nodes[n] is the record itself):
            # only structural containers inside the result are edited
            for v in list(r.values())[:3]:
                if depth < 2:
                    mutate_result(v, depth + 1)
        elif isinstance(r, list):
            for v in r[:3]:
                if depth < 2:
                    mutate_result(v, depth + 1)
            r.append("__vx__")
        elif isinstance(r, tuple):
            for v in r[:3]:
                if depth < 2:
                    mutate_result(v, depth + 1)
    except Exception:
        pass


def _net(ctx, p):
    s = p["shape"]
    cls = p["cls"]
    if p["mode"] == "conc":
        # concrete labels under real hashing; still drawn through ctx so that every
        # labelling in the window is a path
        N, M, edges = s[0], s[1], s[2]
        labs = [ctx.int(f"n{i}", -1, 4) for i in range(N)]
        ctx.assume(*[labs[i] != labs[j] for i in range(N) for j in range(i)])
        labs = [x.__index__() for x in labs]
        with stubs.uninstalled():
            if cls == "D":
                net = xgi.DiHypergraph()
                net.add_nodes_from(labs)
                for j, (t, h) in enumerate(edges):
                    net.add_edge(([labs[i] for i in t], [labs[i] for i in h]), idx=j + 10)
            elif cls == "S":
                net = xgi.SimplicialComplex()
                net.add_nodes_from(labs)
                for j, e in enumerate(edges):
                    net._edge[j + 10] = frozenset(labs[i] for i in e)
                    net._edge_attr[j + 10] = {}
                    for i in e:
                        net._node[labs[i]].add(j + 10)
                net._edge_uid = __import__("itertools").count(10 + M)
            else:
                net = xgi.Hypergraph()
                net.add_nodes_from(labs)
                for j, e in enumerate(edges):
                    net.add_edge([labs[i] for i in e], idx=j + 10)
            net.set_node_attributes({n: {"k": 7} for n in list(net._node)[:1]})
            net["name"] = "vx"
            if p.get("rich_attrs"):
                # container-valued attribute values (e.g. what merge_rule="union" leaves behind)
                for n in list(net._node)[:1]:
                    net._node_attr[n].update({"tags": {"a", "b"}, "path": [1, [2, 3]], "t": (1, 2)})
                for e in list(net._edge)[:1]:
                    net._edge_attr[e].update({"tags": {"x"}, "meta": {"s": frozenset({1}), "l": [0]}, "w": 2})
                net._net_attr["opts"] = {"set": {1, 2}, "list": [{"k": {3}}]}
        return net, labs, list(net._edge)
    if cls == "D":
        net, nl, el, c = nets.build_D(ctx, (s[0], s[1], tuple((tuple(t), tuple(h)) for t, h in s[2])), attrs=True)
    else:
        net, nl, el, c = nets.build_H(ctx, (s[0], s[1], tuple(tuple(e) for e in s[2])), cls=xgi.SimplicialComplex if cls == "S" else None, attrs=True)
    return net, nl, el


@harness("C08.func")
def func(ctx, p):
    name = p["f"]
    f = discover()[name]
    net, nl, el = _net(ctx, p)
    ctx.info["op"] = name
    before = nets.snap(net, counter=True)
    frozen_before = net.is_frozen
    import contextlib

    env = stubs.uninstalled() if p["mode"] == "conc" else contextlib.nullcontext()
    with warnings.catch_warnings():
        warnings.simplefilter("ignore")
        with env:
            if inspect.isclass(f):
                kw = {"__vx_attr__": 1}
            else:
                kw = recipe(ctx, name, f, net, nl, el, p["mode"] == "sym", flags=p.get("flags", False))
            if kw is None:
                ctx.info["outcome"] = "no recipe"
                return
            ctx.info["args"] = {k: v for k, v in kw.items() if k not in ("pos", "node_pos", "dag")}
            try:
                r = f(net, **kw)
                if inspect.isgenerator(r):
                    r = list(r)
                ctx.info["outcome"] = "returned"
            except Exception as ex:
                r = None
                ctx.info["outcome"] = f"raised {type(ex).__name__}"
            finally:
                import matplotlib.pyplot as plt

                plt.close("all")
    ctx.require(nets.same(before, nets.snap(net, counter=True)), "a read-only function changed its input network")
    ctx.require(net.is_frozen == frozen_before, "a read-only function froze or unfroze its input")
    mutate_result(r)
    ctx.require(nets.same(before, nets.snap(net, counter=True)), "editing the returned object changed the input network (internal state handed out without a copy)")


METHODS = {
    "nodes.memberships": lambda net, a, e: net.nodes.memberships(),
    "nodes.memberships(n)": lambda net, a, e: net.nodes.memberships(a),
    "edges.members": lambda net, a, e: net.edges.members(),
    "edges.members(dict)": lambda net, a, e: net.edges.members(dtype=dict),
    "edges.members(e)": lambda net, a, e: net.edges.members(e),
    "nodes.neighbors": lambda net, a, e: net.nodes.neighbors(a),
    "edges.neighbors": lambda net, a, e: net.edges.neighbors(e),
    "nodes.ids": lambda net, a, e: net.nodes.ids,
    "nodes.isolates": lambda net, a, e: net.nodes.isolates(),
    "edges.duplicates": lambda net, a, e: net.edges.duplicates(),
    "edges.maximal": lambda net, a, e: net.edges.maximal(),
    "edges.singletons": lambda net, a, e: net.edges.singletons(),
    "edges.lookup": lambda net, a, e: net.edges.lookup([a]),
    "nodes.degree.asdict": lambda net, a, e: net.nodes.degree.asdict(),
    "nodes.attrs.asdict": lambda net, a, e: net.nodes.attrs.asdict(),
    "edges.attrs.asdict": lambda net, a, e: net.edges.attrs.asdict(),
    "nodes[n]": lambda net, a, e: net.nodes[a],
    "edges[e]": lambda net, a, e: net.edges[e],
    "nodes.filterby": lambda net, a, e: net.nodes.filterby("degree", 1, "geq"),
    "copy": lambda net, a, e: net.copy(),
    "dual": lambda net, a, e: net.dual(),
    "lshift": lambda net, a, e: net << net,
    "cleanup(in_place=False)": lambda net, a, e: net.cleanup(in_place=False),
    "dimembers": lambda net, a, e: net.edges.dimembers(dtype=dict),
    "dimemberships": lambda net, a, e: net.nodes.dimemberships(),
    "head": lambda net, a, e: net.edges.head(e),
    "tail": lambda net, a, e: net.edges.tail(dtype=dict),
}
ONLY = {"dual": "H", "lshift": "H", "dimembers": "D", "dimemberships": "D", "head": "D", "tail": "D", "edges.neighbors": "HS",
        "edges.duplicates": "HS", "edges.maximal": "HS", "edges.singletons": "HS", "edges.lookup": "HS"}


@harness("C08.method")
def method(ctx, p):
    net, nl, el = _net(ctx, dict(p, mode="sym"))
    if not nl or not el:
        ctx.assume(False)
    a = nl[ctx.choose("node", len(nl))]
    e = el[ctx.choose("edge", len(el))]
    ctx.info["op"] = p["m"]
    ctx.info["args"] = {"node": a, "edge": e}
    before = nets.snap(net, counter=True)
    with warnings.catch_warnings():
        warnings.simplefilter("ignore")
        try:
            r = METHODS[p["m"]](net, a, e)
            ctx.info["outcome"] = "returned"
        except Exception as ex:
            r = None
            ctx.info["outcome"] = f"raised {type(ex).__name__}"
    ctx.require(nets.same(before, nets.snap(net, counter=True)), "a read-only method changed the network")
    mutate_result(r)
    ctx.require(nets.same(before, nets.snap(net, counter=True)), "editing the returned object changed the network (internal state handed out without a copy)")


def spec(tier, seed):
    fns = discover()
    if tier == "quick":
        sh = {"H": [s for s in shapes.shapes_H(3, 2)][::3] + shapes.shapes_H(2, 2)[::2] + [shapes.shapes_H(3, 3)[20]],
              "D": shapes.shapes_D(2, 1)[::3] + shapes.shapes_D(2, 2)[::25],
              "S": [s for s in shapes.shapes_S(3) if s[1] > 0][:3]}
    else:
        sh = {"H": shapes.shapes_H_upto(3, 2)[::2] + shapes.shapes_H(3, 3)[::6], "D": shapes.shapes_D_upto(2, 2)[::9], "S": [s for s in shapes.shapes_S_upto(4, (0,)) if s[1] <= 7][::2]}
    units = []
    first = {}
    for name, f in fns.items():
        if name in SKIP:
            continue
        p0 = None if inspect.isclass(f) else list(inspect.signature(f).parameters)[0]
        rich = {c: min((x for x in sh[c] if x[0] >= 2 and x[1] >= 1 and any(len(e) for e in x[2])), key=lambda x: (x[0] + x[1], str(x))) for c in "HDS"}
        for cls in "HDS":
            heavy = name.startswith("draw") or name.endswith("_layout")
            for k, s in enumerate(sh[cls][:2] if heavy and tier == "quick" else sh[cls]):
                for mode in (("sym", "conc") if tier != "quick" or k < 2 else (("sym",) if k % 2 == 0 else ("conc",))):
                    units.append(("C08.func", {"f": name, "cls": cls, "shape": s, "mode": mode, "kind": name}))
                if k == (1 if len(sh[cls]) > 1 else 0) and not inspect.isclass(f):
                    # container-valued attribute values at the three levels, on one shape per class
                    units.append(("C08.func", {"f": name, "cls": cls, "shape": rich[cls], "mode": "conc", "kind": name, "rich_attrs": True}))
                if k == 1 and not heavy and not inspect.isclass(f):
                    # every combination of the boolean options, on one shape per class
                    units.append(("C08.func", {"f": name, "cls": cls, "shape": s, "mode": "conc", "kind": name, "flags": True}))
    for m in METHODS:
        for cls in "HDS":
            if m in ONLY and cls not in ONLY[m]:
                continue
            for s in sh[cls]:
                units.append(("C08.method", {"m": m, "cls": cls, "shape": s, "kind": m}))

    def post(results):
        per = {}
        for r in results:
            if r["harness"] != "C08.func":
                continue
            d = per.setdefault(r["params"]["f"], {})
            for k, v in r["outcomes"].items():
                d[k] = d.get(k, 0) + v
            if r.get("n_unsupported"):
                d["proxy could not cross a C boundary (symbolic mode)"] = d.get("proxy could not cross a C boundary (symbolic mode)", 0) + r["n_unsupported"]
        never = sorted(n for n, d in per.items() if not d.get("returned"))
        return {"coverage": {"callables_enumerated": sorted(fns), "callables_skipped_by_name": sorted(SKIP & set(dir(xgi))),
                             "callables_never_returning_normally": never,
                             "outcomes_per_callable": per}}

    return {
        "units": units,
        "post": post,
        "states_key": "shape",
        "allow_unsupported": True,
        "caps": {"paths": 20000, "wall": 600},
        "level": "other",
        "explanation": "Honest reach: for callables without value-dependent branches this is one path per shape - the solver quantifies labels (symbolic mode: unbounded integers through the pure-Python parts), node/edge selections, order, flags; callables that push labels into C code run in the concrete mode (labels forked over a window under real hashing) and the symbolic attempt is reported as 'proxy could not cross a C boundary'. The callable list is rebuilt by introspection on every run, so new public functions are included automatically; a callable whose required parameters have no recipe is listed, never silently dropped.",
        "bounds": {"shapes": {k: f"{len(v)} shapes" for k, v in sh.items()}, "callables": f"{len(fns)} public callables + {len(METHODS)} view/stat/network methods"},
        "assumptions": ["snapshot = node order, edge order, members/tail-head, memberships, three attribute levels, next automatic id",
                        "results are edited by the harness at the top two container levels (sets, dicts, lists, returned networks)"],
        "outside": ["nested attribute values shared by reference (C07 decides copy())", "simulate_* (long numeric runs), data download functions"],
    }
