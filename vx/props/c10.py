"""C10 Conversions between representations preserve the incidence relation."""
import builtins
import itertools
import warnings

import networkx as nx
import numpy as np
import xgi

from .. import nets, shapes, stubs
from ..runner import harness

CLS = {"H": xgi.Hypergraph, "D": xgi.DiHypergraph, "S": xgi.SimplicialComplex}


def _shape(p):
    s = p["shape"]
    if p["cls"] == "D":
        return (s[0], s[1], tuple((tuple(t), tuple(h)) for t, h in s[2]))
    return (s[0], s[1], tuple(tuple(e) for e in s[2]))


def _build(ctx, p, attrs=True):
    s = _shape(p)
    if p["cls"] == "D":
        return nets.build_D(ctx, s, attrs=attrs)
    return nets.build_H(ctx, s, cls=CLS[p["cls"]], attrs=attrs)


def incid(net):
    """{edge: members} or {edge: (tail, head)} from the tables."""
    if isinstance(net, xgi.DiHypergraph):
        return {e: (set(m["in"]), set(m["out"])) for e, m in net._edge.items()}
    return {e: set(m) for e, m in net._edge.items()}


def nonempty(d):
    out = {}
    for e, m in d.items():
        if isinstance(m, tuple):
            if m[0] or m[1]:
                out[e] = m
        elif m:
            out[e] = m
    return out


def _int(ctx):
    return stubs.sint if ctx.symbolic else builtins.int


@harness("C10.roundtrip", raises_are_violations=True)
def roundtrip(ctx, p):
    net, nl, el, c = _build(ctx, p, attrs=p.get("attrs", True))
    how = p["how"]
    ctx.info["op"] = how
    src = nets.snap(net)
    inc = incid(net)
    directed = p["cls"] == "D"
    with warnings.catch_warnings():
        warnings.simplefilter("ignore")
        if how == "hyperedge_list":
            R = xgi.from_hyperedge_list(xgi.to_hyperedge_list(net))
            got = [set(m) for m in R._edge.values()]
            want = [inc[e] for e in src["edges"]]
            ctx.require(nets.same(got, want), "hyperedge list round trip: members differ or edge order changed")
        elif how == "hyperedge_dict":
            R = xgi.from_hyperedge_dict(xgi.to_hyperedge_dict(net))
            ctx.require(nets.same(incid(R), inc), "hyperedge dict round trip: incidences differ")
            ctx.require(nets.same(list(R._edge), src["edges"]), "hyperedge dict round trip: edge ids/order differ")
        elif how == "bipartite_edgelist":
            el_ = xgi.to_bipartite_edgelist(net)
            if not el_:
                ctx.assume(False)
            R = xgi.from_bipartite_edgelist(el_)
            ctx.require(type(R) is (xgi.DiHypergraph if directed else xgi.Hypergraph), "bipartite edge list: class differs")
            ctx.require(nets.same(incid(R), nonempty(inc)), "bipartite edge list round trip: incidences differ")
        elif how == "incidence_matrix":
            I, nmap, emap = xgi.to_incidence_matrix(net, sparse=False, index=True)
            if I.size == 0:
                ctx.assume(False)
            R = xgi.from_incidence_matrix(I, nodelabels=[nmap[i] for i in range(len(nmap))], edgelabels=[emap[j] for j in range(len(emap))])
            ctx.require(nets.same(incid(R), nonempty(inc)), "labelled incidence matrix round trip: incidences differ")
            # and the matrix itself encodes exactly the incidences
            ok = True
            for i in range(len(nmap)):
                for j in range(len(emap)):
                    ok = ok and (bool(I[i, j]) == (nmap[i] in inc[emap[j]]))
            ctx.require(ok, "incidence matrix with index maps does not encode the incidences")
        elif how == "bipartite_graph":
            G, nmap, emap = xgi.to_bipartite_graph(net, index=True)
            R = xgi.from_bipartite_graph(G)
            ctx.require(type(R) is (xgi.DiHypergraph if directed else xgi.Hypergraph), "bipartite graph: class differs")
            back = {}
            for e, m in incid(R).items():
                if directed:
                    back[emap[e]] = ({nmap[x] for x in m[0]}, {nmap[x] for x in m[1]})
                else:
                    back[emap[e]] = {nmap[x] for x in m}
            ctx.require(nets.same(back, nonempty(inc)), "bipartite graph round trip: incidences differ")
            ctx.require(nets.same([nmap[x] for x in R._node], src["nodes"]), "bipartite graph round trip: node set/order differs")
        elif how == "dataframe":
            df = xgi.to_bipartite_pandas_dataframe(net)
            if len(df) == 0:
                ctx.assume(False)
            R = xgi.from_bipartite_pandas_dataframe(df, node_column="Node ID", edge_column="Edge ID")
            ctx.require(nets.same(incid(R), nonempty(inc)), "dataframe round trip: incidences differ")
        elif how == "dataframe_sc":
            df = xgi.to_bipartite_pandas_dataframe(net)
            if len(df) == 0:
                ctx.assume(False)
            R = xgi.from_bipartite_pandas_dataframe(df, create_using=xgi.SimplicialComplex, node_column="Node ID", edge_column="Edge ID")
            ctx.require(type(R) is xgi.SimplicialComplex, "dataframe -> SimplicialComplex: wrong class")
            ctx.require(_multiset(R._edge.values(), net._edge.values()), "dataframe -> SimplicialComplex: simplices differ")
        elif how == "hypergraph_dict":
            d = xgi.to_hypergraph_dict(net)
            R = xgi.from_hypergraph_dict(d, nodetype=_int(ctx), edgetype=_int(ctx))
            a, b = nets.snap(R), src
            ctx.require(nets.same(set(a["nodes"]), set(b["nodes"])) and nets.same(a["members"], b["members"]), "standard dict round trip: nodes (incl. isolated) or edges (incl. empty) differ")
            ctx.require(nets.same(a["node_attr"], b["node_attr"]) and nets.same(a["edge_attr"], b["edge_attr"]) and nets.same(a["net_attr"], b["net_attr"]), "standard dict round trip: attributes differ")
        elif how == "hif_dict":
            d = xgi.to_hif_dict(net)
            R = xgi.from_hif_dict(d)
            ctx.require(type(R) is type(net), "HIF dict round trip: network class differs")
            a, b = nets.snap(R), src
            ctx.require(nets.same(set(a["nodes"]), set(b["nodes"])), "HIF dict round trip: nodes (incl. isolated) differ")
            if p["cls"] == "S":
                ctx.require(nets.same([set(m) for m in a["members"].values()], [set(m) for m in b["members"].values()]) or _multiset(a["members"].values(), b["members"].values()), "HIF dict round trip: simplices differ")
            else:
                ctx.require(nets.same(a["members"], b["members"]), "HIF dict round trip: edges (incl. empty) differ")
                ctx.require(nets.same(a["edge_attr"], b["edge_attr"]), "HIF dict round trip: edge attributes differ")
            ctx.require(nets.same(a["node_attr"], b["node_attr"]), "HIF dict round trip: node attributes differ")
            ctx.require(nets.same(a["net_attr"], b["net_attr"]), "HIF dict round trip: network attributes differ")
    ctx.require(nets.same(src, nets.snap(net)), "conversion changed its input")


def _multiset(A, B):
    from .c19 import multiset_eq

    return multiset_eq([set(x) for x in A], [set(x) for x in B])


STR_POOL = ["a", "b", "c10", "c9", "node 5"]


@harness("C10.reuse", raises_are_violations=True)
def reuse(ctx, p):
    """Converting INTO a re-used network instance (create_using=<instance>) gives
    the same network as converting into a fresh one, whatever the instance held."""
    s1 = (p["shape"][0], p["shape"][1], tuple(tuple(e) for e in p["shape"][2]))
    s2 = (p["shape2"][0], p["shape2"][1], tuple(tuple(e) for e in p["shape2"][2]))
    src = nets.build_H(ctx, s1, attrs=True)[0]
    T = nets.build_H(ctx, s2, attrs=True, tag="b")[0]
    how = p["how"]
    ctx.info["op"] = "create_using:" + how
    with warnings.catch_warnings():
        warnings.simplefilter("ignore")
        if how == "hyperedge_dict":
            d = xgi.to_hyperedge_dict(src)
            fresh = xgi.from_hyperedge_dict(d)
            R = xgi.from_hyperedge_dict(d, create_using=T)
        elif how == "hyperedge_list":
            d = xgi.to_hyperedge_list(src)
            if d and len(d[0]) == 0:
                ctx.assume(False)
            fresh = xgi.from_hyperedge_list(d)
            R = xgi.from_hyperedge_list(d, create_using=T)
        else:
            fresh = xgi.to_hypergraph(src)
            R = xgi.to_hypergraph(src, create_using=T)
            R = T if R is None else R
    a, b = nets.snap(R), nets.snap(fresh)
    if how == "hyperedge_list":
        # the list carries no edge labels (a re-used instance keeps its id counter): compare in order
        ctx.require(nets.same(a["nodes"], b["nodes"]) and nets.same([a["members"][e] for e in a["edges"]], [b["members"][e] for e in b["edges"]]),
                    "converting into a re-used instance differs from converting into a fresh one")
    else:
        a.pop("net_attr"), b.pop("net_attr")
        ctx.require(nets.same(a, b), "converting into a re-used instance differs from converting into a fresh one")


@harness("C10.strings", raises_are_violations=True)
def strings(ctx, p):
    """String labels (every injective assignment from a pool, string edge ids):
    the dict, HIF, edge-list, bipartite-graph and dataframe round trips, and the
    documented refusal of colliding string casts."""
    s = p["shape"]
    N, M, edges = s[0], s[1], s[2]
    pool = list(STR_POOL)
    nl = [pool.pop(ctx.choose(f"lab{i}", len(pool))) for i in range(N)]
    el = [f"e{j}" for j in range(M)]
    how = p["how"]
    ctx.info["op"] = "strings:" + how
    ctx.info["args"] = {"labels": nl}
    with stubs.uninstalled(), warnings.catch_warnings():
        warnings.simplefilter("ignore")
        H = xgi.Hypergraph()
        H.add_nodes_from(nl)
        for j in range(M):
            H.add_edge([nl[i] for i in edges[j]], idx=el[j])
        H.set_node_attributes({n: {"k": n + "!"} for n in nl[:1]})
        src = nets.snap(H)
        if how == "hypergraph_dict":
            R = xgi.from_hypergraph_dict(xgi.to_hypergraph_dict(H))
        elif how == "hif_dict":
            R = xgi.from_hif_dict(xgi.to_hif_dict(H))
        elif how == "incidence_mixed":
            # numbers and strings mixed among the node labels and among the edge ids
            mixed_nodes = [nl[i] if i % 2 == 0 else 10 * i + 1 for i in range(N)]
            mixed_edges = [el[j] if j % 2 == 0 else j for j in range(M)]
            H = xgi.Hypergraph()
            H.add_nodes_from(mixed_nodes)
            for j in range(M):
                H.add_edge([mixed_nodes[i] for i in edges[j]], idx=mixed_edges[j])
            I, nmap, emap = xgi.to_incidence_matrix(H, sparse=False, index=True)
            if I.size == 0:
                ctx.assume(False)
            R = xgi.from_incidence_matrix(I, nodelabels=[nmap[i] for i in range(len(nmap))], edgelabels=[emap[j] for j in range(len(emap))])
            want = {e: set(m) for e, m in H._edge.items() if m}
            got = {e: set(m) for e, m in R._edge.items()}
            ctx.require(got == want and all(type(k) is type(w) for k, w in zip(sorted(got, key=str), sorted(want, key=str))), "labelled incidence matrix round trip changes labels of mixed type")
            ctx.require(all(any(n == m and type(n) is type(m) for m in H._node) for n in R._node), "labelled incidence matrix round trip changes the type of a node label")
            return
        elif how.endswith("_mixed"):
            # numbers and strings mixed among the node labels and the edge ids, through
            # the other label-carrying representations
            mixed_nodes = [nl[i] if i % 2 == 0 else 10 * i + 1 for i in range(N)]
            mixed_edges = [el[j] if j % 2 == 0 else j for j in range(M)]
            H = xgi.Hypergraph()
            H.add_nodes_from(mixed_nodes)
            for j in range(M):
                H.add_edge([mixed_nodes[i] for i in edges[j]], idx=mixed_edges[j])
            want = {e: set(m) for e, m in H._edge.items() if m}
            if not want:
                ctx.assume(False)
            if how == "dataframe_mixed":
                R = xgi.from_bipartite_pandas_dataframe(xgi.to_bipartite_pandas_dataframe(H), node_column="Node ID", edge_column="Edge ID")
            elif how == "bipartite_edgelist_mixed":
                R = xgi.from_bipartite_edgelist(xgi.to_bipartite_edgelist(H))
            elif how == "hyperedge_dict_mixed":
                R = xgi.from_hyperedge_dict(xgi.to_hyperedge_dict(H))
            else:
                G, nmap, emap = xgi.to_bipartite_graph(H, index=True)
                R0 = xgi.from_bipartite_graph(G)
                R = xgi.Hypergraph()
                for e, m in R0._edge.items():
                    R.add_edge([nmap[x] for x in m], idx=emap[e])
            got = {e: set(m) for e, m in R._edge.items() if m}

            def typed(d):
                return sorted(((type(e).__name__, str(e)), sorted((type(n).__name__, str(n)) for n in m)) for e, m in d.items())

            ctx.require(got == want and typed(got) == typed(want), f"{how[:-6]} round trip changes labels of mixed type (value or type)")
            return
        elif how == "collision":
            H.add_node(7)
            H.add_node("7")
            try:
                xgi.to_hypergraph_dict(H)
                ok = False
            except xgi.exception.XGIError:
                ok = True
            ctx.require(ok, "to_hypergraph_dict did not refuse node labels whose string casts collide")
            return
        a = nets.snap(R)
    ctx.require(set(a["nodes"]) == set(src["nodes"]) and a["members"] == src["members"], "string labels: nodes or edges differ after the round trip")
    ctx.require(a["node_attr"] == src["node_attr"] and a["edge_attr"] == src["edge_attr"], "string labels: attributes differ after the round trip")


@harness("C10.cross", raises_are_violations=True)
def cross(ctx, p):
    """Building a network of one class from a network of another."""
    net, nl, el, c = _build(ctx, p, attrs=p.get("attrs", True))
    how = p["how"]
    ctx.info["op"] = how
    src = nets.snap(net)
    with warnings.catch_warnings():
        warnings.simplefilter("ignore")
        if p.get("form") == "function":
            R = {"H": xgi.to_hypergraph, "S": xgi.to_simplicial_complex, "D": xgi.to_dihypergraph}[how[-1]](net)
            ctx.require(isinstance(R, {"H": xgi.Hypergraph, "S": xgi.SimplicialComplex, "D": xgi.DiHypergraph}[how[-1]]), "to_* conversion function did not return a network of the target class")
            if R is None:
                return
        else:
            R = {"H": xgi.Hypergraph, "S": xgi.SimplicialComplex, "D": xgi.DiHypergraph}[how[-1]](net)
    a = nets.snap(R)
    ctx.require(nets.same(a["nodes"], src["nodes"]), "class conversion changed the node set or its order")
    ctx.require(nets.same(a["node_attr"], src["node_attr"]), "class conversion lost or changed node attributes")
    ctx.require(nets.same(a["net_attr"], src["net_attr"]), "class conversion lost or changed network attributes")
    if how == "D->D":
        ctx.require(nets.same(a["members"], src["members"]) and nets.same(a["edge_attr"], src["edge_attr"]), "DiHypergraph(DiHypergraph) differs from its source")
    elif how in ("D->H", "S->H", "H->H"):
        want = {e: (m[0] | m[1] if isinstance(m, tuple) else set(m)) for e, m in src["members"].items()}
        ctx.require(nets.same(a["members"], want), "class conversion changed an edge's member set")
        ctx.require(nets.same(a["edge_attr"], src["edge_attr"]), "class conversion lost or changed edge attributes")
    else:  # -> S: every source edge with >= 1 node present (by members) plus all faces
        vals = [set(m) for m in a["members"].values()]
        for e, m in src["members"].items():
            m = set(m)
            if len(m) == 0:
                continue
            ctx.require(any(nets.same(m, v) for v in vals), "a source edge's member set is missing in the simplicial complex")
            for k in range(2, len(m)):
                for f in itertools.combinations(list(m), k):
                    ctx.require(any(nets.same(set(f), v) for v in vals), "a face of a source edge is missing in the simplicial complex")
        # edge attributes survive for the ids that were kept
        for e in src["edges"]:
            if e in a["edge_attr"] and nets.same(a["members"][e], set(src["members"][e])):
                ctx.require(nets.same(a["edge_attr"][e], src["edge_attr"][e]), "class conversion lost or changed edge attributes")
    ctx.require(nets.same(src, nets.snap(net)), "class conversion changed its input")


@harness("C10.bipartite_order", raises_are_violations=True)
def bipartite_order(ctx, p):
    """from_bipartite_graph does not depend on the order in which the vertices
    and links of the input graph were inserted."""
    s = (p["shape"][0], p["shape"][1], tuple(tuple(e) for e in p["shape"][2]))
    N, M, edges = s
    nl = [ctx.label(f"n{i}", group="v") for i in range(N)]
    el = [ctx.label(f"e{j}", group="v") for j in range(M)]
    ctx.distinct(nl + el)  # vertices of one graph: node- and edge-vertices are all distinct
    verts = [("n", i) for i in range(N)] + [("e", j) for j in range(M)]
    order = p["vorder"]
    G = nx.Graph()
    for k in order:
        kind, i = verts[k]
        if kind == "n":
            G.add_node(nl[i], bipartite=0)
        else:
            G.add_node(el[i], bipartite=1)
    links = [(i, j) for j in range(M) for i in edges[j]]
    for t, (i, j) in enumerate(links):
        if (p["orient"] >> t) & 1:
            G.add_edge(el[j], nl[i])
        else:
            G.add_edge(nl[i], el[j])
    ctx.info["op"] = "from_bipartite_graph"
    ctx.info["args"] = {"vertex_order": [verts[k] for k in order], "orient_bits": p["orient"]}
    with warnings.catch_warnings():
        warnings.simplefilter("ignore")
        R = xgi.from_bipartite_graph(G)
    want = {el[j]: {nl[i] for i in edges[j]} for j in range(M) if edges[j]}
    ctx.require(nets.same(incid(R), want), "from_bipartite_graph depends on vertex/link insertion order (roles swapped or incidences lost)")
    ctx.require(nets.same(set(R._node), set(nl)), "from_bipartite_graph: node set differs from the bipartite=0 vertices")


def spec(tier, seed):
    if tier == "quick":
        sh = {"H": shapes.shapes_H_upto(3, 2) + shapes.shapes_H(2, 3), "D": shapes.shapes_D_upto(2, 2), "S": shapes.shapes_S_upto(3)}
        bip = [s for s in shapes.shapes_H_upto(2, 2) if s[0] + s[1] <= 4 and s[1] >= 1 and s[0] >= 1]
    else:
        sh = {"H": shapes.shapes_H_upto(4, 3) + shapes.shapes_H(3, 4), "D": shapes.shapes_D_upto(3, 2), "S": shapes.shapes_S_upto(4)}
        bip = [s for s in shapes.shapes_H_upto(3, 2) + shapes.shapes_H(2, 3) if s[0] + s[1] <= 5 and s[1] >= 1 and s[0] >= 1]
    units = []
    for cls, hows in (("H", ["hyperedge_list", "hyperedge_dict", "bipartite_edgelist", "incidence_matrix", "bipartite_graph", "dataframe", "hypergraph_dict", "hif_dict"]),
                      ("D", ["bipartite_edgelist", "bipartite_graph", "hif_dict"]),
                      ("S", ["hif_dict", "dataframe_sc"])):
        for s in sh[cls]:
            for how in hows:
                units.append(("C10.roundtrip", {"cls": cls, "shape": s, "how": how}))
                if how in ("hif_dict", "hypergraph_dict"):
                    units.append(("C10.roundtrip", {"cls": cls, "shape": s, "how": how, "attrs": False}))
    for cls, hows in (("H", ["H->H", "H->S"]), ("D", ["D->H", "D->D"]), ("S", ["S->H", "S->S"])):
        for s in sh[cls]:
            for how in hows:
                units.append(("C10.cross", {"cls": cls, "shape": s, "how": how}))
                units.append(("C10.cross", {"cls": cls, "shape": s, "how": how, "attrs": False}))
                units.append(("C10.cross", {"cls": cls, "shape": s, "how": how, "form": "function"}))
    for s in shapes.shapes_H(2, 2) + shapes.shapes_H(3, 1):
        for how in ("hypergraph_dict", "hif_dict", "collision", "incidence_mixed", "dataframe_mixed", "bipartite_edgelist_mixed", "hyperedge_dict_mixed", "bipartite_graph_mixed"):
            units.append(("C10.strings", {"cls": "H", "shape": s, "how": how}))
    small = shapes.shapes_H_upto(2, 1) + shapes.shapes_H(0, 2) + shapes.shapes_H(1, 2)[:2]
    for s in shapes.shapes_H_upto(2, 2):
        for s2 in small:
            for how in ("hyperedge_dict", "hyperedge_list", "to_hypergraph"):
                units.append(("C10.reuse", {"cls": "H", "shape": s, "shape2": s2, "how": how}))
    for s in bip:
        nv = s[0] + s[1]
        nlinks = sum(len(e) for e in s[2])
        for vorder in itertools.permutations(range(nv)):
            for orient in range(2 ** nlinks):
                units.append(("C10.bipartite_order", {"cls": "H", "shape": s, "vorder": list(vorder), "orient": orient}))
    return {
        "units": units,
        "caps": {"paths": 50000, "wall": 600},
        "level": "model_checking",
        "bounds": {"shapes": {k: f"{len(v)} shapes" for k, v in sh.items()},
                   "labels": "unbounded integers (node and edge labels may coincide except as vertices of one bipartite graph); attribute values symbolic",
                   "bipartite graph": f"{len(bip)} shapes with <= {4 if tier == 'quick' else 5} vertices: every vertex insertion order x every orientation of every add_edge call"},
        "assumptions": ["ids cross the standard dict as rendered integers (SymStr: decimal rendering is injective) and are cast back with int",
                        "representations that carry no empty edges/isolated nodes (edge lists, matrices, graphs, dataframes) are compared on the non-empty incidences"],
        "outside": ["string-cast collisions between labels of different types", "JSON representability (C11)"],
    }
