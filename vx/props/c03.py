"""C03 Simplicial complexes stay downward closed and duplicate-free: inductive
step on SimplicialComplex from every small closed complex."""
import itertools
import warnings

import xgi

from .. import nets, ops, shapes, stubs
from ..runner import harness

P_QUICK = {"members": 3, "smembers": 3, "bulk": 2, "sbulk_first": 3, "sbulk_rest": 1, "max_orders": [None, 1]}
P_THOROUGH = {"members": 4, "smembers": 4, "bulk": 2, "sbulk_first": 3, "sbulk_rest": 1, "max_orders": [None, 0, 1, 2]}


def _shape(s):
    return (s[0], s[1], tuple(tuple(e) for e in s[2]))


def inv_S(S):
    """closure, uniqueness, no empty simplex (on top of Inv_H)."""
    bad = []
    vals = list(S._edge.values())
    for i, s in enumerate(vals):
        if len(s) == 0:
            bad.append("empty simplex")
        for j in range(i):
            if nets.same(set(s), set(vals[j])):
                bad.append("two simplex ids carry the same node set")
    for s in vals:
        mem = list(s)
        for k in range(2, len(mem)):
            for face in itertools.combinations(mem, k):
                f = set(face)
                if not any(nets.same(f, set(v)) for v in vals):
                    bad.append("a face of a simplex is not a simplex")
    return bad


def _has(vals, target):
    return any(nets.same(set(v), target) for v in vals)


@harness("C03.step")
def step(ctx, p):
    S, nl, el, c = nets.build_H(ctx, _shape(p["shape"]), cls=xgi.SimplicialComplex)
    ctx.info["op"] = p["op"]
    pre_vals = [set(v) for v in S._edge.values()]
    pre_ids = list(S._edge)
    pre = {e: set(v) for e, v in S._edge.items()}
    outcome, exc, w = ops.apply(ctx, S, ops.OPS_S[p["op"]], p["P"])
    ctx.info["outcome"] = outcome if exc is None else f"raised {type(exc).__name__}"
    if ctx.symbolic:
        nets.check_tables(S)
    for clause in sorted(set(nets.inv_H(S))):
        ctx.require(False, clause)
    for clause in sorted(set(nets.inv_H_public(S))):
        ctx.require(False, clause)
    for clause in sorted(set(inv_S(S))):
        ctx.require(False, clause)
    args = ctx.info.get("args") or {}
    post_vals = [set(v) for v in S._edge.values()]
    op = p["op"]
    # max_order: simplices created by this call never exceed it
    mo = args.get("max_order")
    if mo is not None and outcome == "returned":
        for e, v in S._edge.items():
            if e not in pre and len(v) > mo + 1:
                ctx.require(False, "a simplex created under max_order exceeds it")
    # removal exactness
    if op in ("remove_simplex_id", "dep_remove_edge") and outcome == "returned":
        idx = args["idx"]
        if idx in pre:
            target = pre[idx]
            expect = [v for v in pre_vals if not _superset(v, target)]
            ok = len(expect) == len(post_vals) and all(_has(post_vals, v) for v in expect)
            ctx.require(ok, "removing a simplex did not remove exactly it and the simplices containing it")
    if op in ("remove_simplex_id", "dep_remove_edge") and outcome != "returned":
        ctx.require(nets.same(pre, {e: set(v) for e, v in S._edge.items()}), "a rejected removal changed the complex")
    if op in ("remove_simplex_ids_from", "dep_remove_edges_from"):
        ids = args["ebunch"]
        missing = [i for i in ids if i not in pre]
        if missing:
            ctx.require(outcome == "raised" and isinstance(exc, (xgi.exception.XGIError, xgi.exception.IDNotFound)), "bulk removal of an id that is not a simplex was not refused with the library's error")
    if op in ("add_simplex", "dep_add_edge") and outcome == "returned":
        mem = set(args["members"])
        refused = args.get("idx") is not None and args["idx"] in pre  # documented: warn and skip
        if len(mem) > 0 and not refused:
            ctx.require(_has(post_vals, mem), "the added simplex is not in the complex")
        # nothing is lost by adding
        ctx.require(all(_has(post_vals, v) for v in pre_vals), "adding a simplex removed one")


@harness("C03.has")
def has(ctx, p):
    """has_simplex answers membership exactly, for a symbolic query on every shape."""
    S, nl, el, c = nets.build_H(ctx, _shape(p["shape"]), cls=xgi.SimplicialComplex)
    vals = [set(v) for v in S._edge.values()]
    q = [ctx.fresh("q") for _ in range(ctx.choose("qk", p["qmax"] + 1))]
    ctx.info["op"] = "has_simplex"
    ctx.info["args"] = {"simplex": q}
    try:
        ans = S.has_simplex(q)
    except Exception as ex:
        ans = ex
    ctx.require(ans is _has(vals, set(q)), "has_simplex does not answer membership exactly")


def _superset(v, target):
    for n in target:
        if n not in v:
            return False
    return True


@harness("C03.base")
def base(ctx, p):
    a, b, c, d = (ctx.fresh() for _ in range(4))
    kind = p["kind"]
    ctx.info["op"] = "ctor:" + kind
    with warnings.catch_warnings():
        warnings.simplefilter("ignore")
        if kind == "empty":
            S = xgi.SimplicialComplex()
        elif kind == "list":
            S = xgi.SimplicialComplex([[a, b, c], [c, d]])
        elif kind == "hypergraph":
            S = xgi.SimplicialComplex(xgi.Hypergraph([[a, b, c], [b, c, d]]))
        elif kind == "copy":
            S0 = xgi.SimplicialComplex([[a, b, c], [c, d]])
            S = S0.copy()
    ctx.info["args"] = {"a": a, "b": b, "c": c, "d": d}
    for clause in sorted(set(nets.inv_H(S) + inv_S(S))):
        ctx.require(False, clause)


@harness("C03.numeric")
def numeric(ctx, p):
    """Simplex ids that are integer-like numbers of other types (integral floats,
    numpy ints/floats, bools), then automatic additions: nothing is overwritten and
    the incidence relation stays two-way (shares C04's concrete-pool harness)."""
    from . import c04

    c04.numeric(ctx, p)


def spec(tier, seed):
    if tier == "quick":
        shp = shapes.shapes_S_upto(3)
        small = set(shapes.shapes_S_upto(2) + shapes.shapes_S(3, 0)[:3])
        P = P_QUICK
        qmax = 3
    else:
        shp = shapes.shapes_S_upto(4)
        small = set(shapes.shapes_S_upto(2) + shapes.shapes_S(3, 0))
        P = P_THOROUGH
        qmax = 4
    units = []
    for s in shp:
        for op in ops.OPS_S:
            if op in ops.HEAVY_S and s not in small:
                continue
            units.append(("C03.step", {"shape": s, "op": op, "P": P}))
    for s in shp:
        units.append(("C03.has", {"shape": s, "qmax": qmax}))
    for k in ("empty", "list", "hypergraph", "copy"):
        units.append(("C03.base", {"kind": k, "shape": None}))
    units.append(("C03.numeric", {"cls": "S", "shape": None, "op": "numeric ids"}))
    return {
        "units": units,
        "caps": {"paths": 300000 if tier == "quick" else 3000000, "wall": 900 if tier == "quick" else 3000},
        "level": "model_checking",
        "bounds": {
            "shapes": f"{len(shp)} downward-closed complexes on <= {3 if tier == 'quick' else 4} vertices (+ optional isolated vertex)",
            "labels": "vertex labels, simplex ids, counter, members of added simplices, ids: unbounded integers",
            "added simplex size": f"<= {P['smembers']} (add_simplex), bulk: first entry <= {P['sbulk_first']}, second <= {P['sbulk_rest']}",
            "max_order": P["max_orders"],
            "has_simplex query": f"list of <= {qmax} symbolic labels, on every shape (no preceding op)",
        },
        "assumptions": [
            "pre-state is a closed, duplicate-free complex satisfying the incidence invariant and Fresh",
            "itertools.count replaced by scount; float()/int() shadows",
        ],
        "outside": ["string labels", "complexes on more vertices than the bound"],
    }
