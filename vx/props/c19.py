"""C19 Derived networks satisfy their set-theoretic definitions."""
import itertools
import warnings

import xgi

from .. import nets, shapes
from ..runner import harness


def _shape(s):
    return (s[0], s[1], tuple(tuple(e) for e in s[2]))


def multiset_eq(A, B):
    """Equality of two lists as multisets under nets.same (an equivalence)."""
    if len(A) != len(B):
        return False
    B = list(B)
    for a in A:
        for i, b in enumerate(B):
            if nets.same(a, b):
                del B[i]
                break
        else:
            return False
    return True


def components(node, edge):
    """Connected components (lists of nodes) from the tables, by merging."""
    comps = []
    for n in node:
        comps.append([n])
    for e, mem in edge.items():
        mem = list(mem)
        if not mem:
            continue
        idx = sorted({i for i, c in enumerate(comps) if any(m in c for m in mem)})
        merged = [x for i in idx for x in comps[i]]
        comps = [c for i, c in enumerate(comps) if i not in idx] + [merged]
    return comps


def has_dup(edge):
    vals = list(edge.values())
    return any(nets.same(set(vals[i]), set(vals[j])) for i in range(len(vals)) for j in range(i))


@harness("C19.cleanup", raises_are_violations=True)
def cleanup(ctx, p):
    H = nets.build_H(ctx, _shape(p["shape"]), attrs=True)[0]
    fl = {k: ctx.flag(k) for k in ("isolates", "singletons", "multiedges", "connected", "relabel")}
    ctx.info["op"] = "cleanup"
    ctx.info["args"] = fl
    before = nets.snap(H)
    with warnings.catch_warnings():
        warnings.simplefilter("ignore")
        R = H.cleanup(in_place=False, **fl)
    node, edge = R._node, R._edge
    if not fl["isolates"]:
        ctx.require(all(len(node[n]) > 0 for n in node), "cleanup(isolates=False) left an isolated node")
    if not fl["singletons"]:
        ctx.require(all(len(edge[e]) != 1 for e in edge), "cleanup(singletons=False) left a singleton edge")
    if not fl["multiedges"]:
        ctx.require(not has_dup(edge), "cleanup(multiedges=False) left repeated edges")
    if fl["connected"]:
        ctx.require(len(components(node, edge)) <= 1, "cleanup(connected=True) returned a disconnected network")
    if fl["relabel"]:
        ctx.require(list(node) == list(range(len(node))) and list(edge) == list(range(len(edge))), "cleanup(relabel=True) labels are not 0..n-1 / 0..m-1")
        back = {n: R._node_attr[n].get("label") for n in node}
    else:
        back = {n: n for n in node}
    # only deletions and merges: every result node/edge is an original one
    orig_nodes = before["nodes"]
    orig_members = [before["members"][e] for e in before["edges"]]
    ctx.require(all(any(nets.same(back[n], o) for o in orig_nodes) for n in node), "cleanup invented a node")
    res_members = [{back[n] for n in edge[e]} for e in edge]
    ctx.require(all(any(nets.same(m, o) for o in orig_members) for m in res_members), "cleanup invented an edge")
    if fl["multiedges"]:
        # no merging: multiplicities cannot grow
        for m in res_members:
            k_res = len([x for x in res_members if nets.same(x, m)])
            k_org = len([x for x in orig_members if nets.same(x, m)])
            ctx.require(k_res <= k_org, "cleanup duplicated an edge")
    if not fl["connected"]:
        # completeness: every original edge that no guarantee excludes survives (as a member set)
        for o in orig_members:
            if len(o) == 1 and not fl["singletons"]:
                continue
            ctx.require(any(nets.same(o, m) for m in res_members), "cleanup dropped an edge that no requested guarantee excludes")
        if fl["isolates"]:
            ctx.require(len(node) == len(orig_nodes), "cleanup(isolates=True, connected=False) dropped a node")
    ctx.require(nets.same(before, nets.snap(H)), "cleanup(in_place=False) changed its input")


@harness("C19.relabel", raises_are_violations=True)
def relabel(ctx, p):
    cls = p["cls"]
    if cls == "D":
        s = p["shape"]
        H = nets.build_D(ctx, (s[0], s[1], tuple((tuple(t), tuple(h)) for t, h in s[2])), attrs=True)[0]
    else:
        H = nets.build_H(ctx, _shape(p["shape"]), cls=xgi.SimplicialComplex if cls == "S" else None, attrs=True)[0]
    ctx.info["op"] = "convert_labels_to_integers"
    # a pre-existing "label" attribute (e.g. from an earlier relabelling) is documented to be overwritten
    for n in list(H._node_attr)[:1]:
        H._node_attr[n]["label"] = ctx.fresh("oldlabel")
    for e in list(H._edge_attr)[:1]:
        H._edge_attr[e]["label"] = ctx.fresh("oldlabel")
    before = nets.snap(H)
    R = xgi.convert_labels_to_integers(H)
    n, m = len(before["nodes"]), len(before["edges"])
    ctx.require(list(R._node) == list(range(n)) and list(R._edge) == list(range(m)), "relabelled ids are not 0..n-1 / 0..m-1 in order")
    nmap = {i: before["nodes"][i] for i in range(n)}
    for i in range(n):
        ctx.require(nets.same(R._node_attr[i].get("label"), before["nodes"][i]), "old node label not recorded")
        a = dict(R._node_attr[i])
        a.pop("label", None)
        b = dict(before["node_attr"][before["nodes"][i]])
        b.pop("label", None)
        ctx.require(nets.same(a, b), "node attributes not preserved by relabelling")
    for j in range(m):
        e0 = before["edges"][j]
        ctx.require(nets.same(R._edge_attr[j].get("label"), e0), "old edge label not recorded")
        if cls == "D":
            got = ({nmap[x] for x in R._edge[j]["in"]}, {nmap[x] for x in R._edge[j]["out"]})
        else:
            got = {nmap[x] for x in R._edge[j]}
        ctx.require(nets.same(got, before["members"][e0]), "relabelling is not an isomorphism (members differ)")
    ctx.require(nets.same(before, nets.snap(H)), "convert_labels_to_integers(in_place=False) changed its input")


@harness("C19.subhypergraph", raises_are_violations=True)
def subhypergraph(ctx, p):
    H, nl, el, c = nets.build_H(ctx, _shape(p["shape"]), attrs=True)
    nodes_sel = None
    edges_sel = None
    if ctx.flag("give_nodes"):
        nodes_sel = [n for i, n in enumerate(nl) if ctx.flag(f"pick_n{i}")]
        if ctx.flag("absent_node"):
            nodes_sel.append(ctx.fresh())
    if ctx.flag("give_edges"):
        edges_sel = [e for j, e in enumerate(el) if ctx.flag(f"pick_e{j}")]
        if ctx.flag("absent_edge"):
            edges_sel.append(ctx.fresh("i"))
    ctx.info["op"] = "subhypergraph"
    ctx.info["args"] = {"nodes": nodes_sel, "edges": edges_sel}
    before = nets.snap(H)
    with warnings.catch_warnings():
        warnings.simplefilter("ignore")
        R = xgi.subhypergraph(H, nodes=nodes_sel, edges=edges_sel)
    want_nodes = [n for n in H._node if nodes_sel is None or n in nodes_sel]
    want_edges = [e for e in H._edge if (edges_sel is None or e in edges_sel) and all(m in want_nodes for m in H._edge[e])]
    ctx.require(nets.same(list(R._node), want_nodes), "subhypergraph nodes are not exactly the requested present nodes (in order)")
    ctx.require(nets.same(list(R._edge), want_edges), "subhypergraph edges are not exactly the requested edges inside the requested nodes")
    for e in want_edges:
        if e in R._edge:
            ctx.require(nets.same(set(R._edge[e]), before["members"][e]), "subhypergraph changed the members of a kept edge")
            ctx.require(nets.same(dict(R._edge_attr[e]), before["edge_attr"][e]), "subhypergraph changed the attributes of a kept edge")
    ctx.require(R.is_frozen, "subhypergraph result is not frozen")
    ctx.require(nets.same(before, nets.snap(H)), "subhypergraph changed its input")
    ctx.require(not nets.inv_H(R), "subhypergraph result violates the incidence invariant")


@harness("C19.dual", raises_are_violations=True)
def dual(ctx, p):
    H = nets.build_H(ctx, _shape(p["shape"]), attrs=True)[0]
    ctx.info["op"] = "dual"
    Dl = H.dual()
    ctx.require(nets.same(set(Dl._edge), set(H._node)), "dual edges are not the nodes of the source")
    ctx.require(nets.same(set(Dl._node), set(H._edge)), "dual nodes are not the edges of the source")
    for n in H._node:
        if n in Dl._edge:
            ctx.require(nets.same(set(Dl._edge[n]), set(H._node[n])), "a dual edge's members are not the node's memberships")
    ctx.require(not nets.inv_H(Dl), "dual violates the incidence invariant")
    no_iso = all(len(v) > 0 for v in H._node.values()) and all(len(v) > 0 for v in H._edge.values())
    if no_iso:
        DD = Dl.dual()
        a, b = nets.snap(H), nets.snap(DD)
        ok = nets.same(set(a["nodes"]), set(b["nodes"])) and nets.same(a["members"], b["members"]) and nets.same(a["node_attr"], b["node_attr"]) and nets.same(a["edge_attr"], b["edge_attr"])
        ctx.require(ok, "dual is not an involution on a network without isolated nodes or empty edges")


@harness("C19.lshift", raises_are_violations=True)
def lshift(ctx, p):
    H1 = nets.build_H(ctx, _shape(p["shape"]), attrs=True)[0]
    H2 = nets.build_H(ctx, _shape(p["shape2"]), attrs=True, tag="b")[0]
    ctx.info["op"] = "<<"
    b1, b2 = nets.snap(H1), nets.snap(H2)
    R = H1 << H2
    want_nodes = list(b1["nodes"]) + [n for n in b2["nodes"] if n not in b1["nodes"]]
    ctx.require(nets.same(list(R._node), want_nodes), "<< nodes are not the union in order")
    want = [b1["members"][e] for e in b1["edges"]] + [b2["members"][e] for e in b2["edges"]]
    got = [set(m) for m in R._edge.values()]
    ctx.require(nets.same(got, want), "<< edges are not the disjoint union of both edge lists")
    for n in want_nodes:
        exp = dict(b1["node_attr"].get(n, {}))
        if n in b2["node_attr"]:
            exp.update(b2["node_attr"][n])
        ctx.require(nets.same(dict(R._node_attr[n]), exp), "<< node attributes: the second network does not take precedence")
    ctx.require(nets.same(b1, nets.snap(H1)) and nets.same(b2, nets.snap(H2)), "<< changed an operand")
    ctx.require(not nets.inv_H(R), "<< result violates the incidence invariant")


@harness("C19.complement", raises_are_violations=True)
def complement(ctx, p):
    H, nl, el, c = nets.build_H(ctx, _shape(p["shape"]))
    ctx.info["op"] = "complement"
    if not el:
        ctx.assume(False)
    R = xgi.complement(H)
    mx = max(len(m) for m in H._edge.values())
    present = [set(m) for m in H._edge.values()]
    want = []
    for k in range(1, mx + 1):
        for sub in itertools.combinations(nl, k):
            if not any(nets.same(set(sub), q) for q in present):
                want.append(set(sub))
    got = [set(m) for m in R._edge.values()]
    ctx.require(multiset_eq(got, want), "complement does not hold exactly the absent node sets up to the maximum size")
    ctx.require(nets.same(list(R._node), list(H._node)), "complement changed the node set")


@harness("C19.cut")
def cut(ctx, p):
    sc = p["cls"] == "S"
    H = nets.build_H(ctx, _shape(p["shape"]), cls=xgi.SimplicialComplex if sc else None, attrs=True)[0]
    if not H._edge:
        ctx.assume(False)
    k = ctx.int("order", -1, 4)
    ctx.info["op"] = "k_skeleton" if sc else "cut_to_order"
    ctx.info["args"] = {"order": k}
    before = nets.snap(H)
    mx = max(len(m) for m in H._edge.values()) - 1
    try:
        with warnings.catch_warnings():
            warnings.simplefilter("ignore")
            R = xgi.k_skeleton(H, k) if sc else xgi.cut_to_order(H, k)
        exc = None
    except Exception as ex:
        exc = ex
    if k > mx:
        ctx.require(isinstance(exc, xgi.exception.XGIError), "an order above the maximum is not refused with XGIError")
        return
    ctx.require(exc is None, "cut_to_order raised for an admissible order")
    if exc is not None:
        return
    want = [e for e in before["edges"] if len(before["members"][e]) <= k + 1]
    ctx.require(nets.same(list(R._edge), want), "cut_to_order does not keep exactly the edges up to the order")
    for e in want:
        if e in R._edge:
            ctx.require(nets.same(set(R._edge[e]), before["members"][e]) and nets.same(dict(R._edge_attr[e]), before["edge_attr"][e]), "cut_to_order altered a kept edge")
    ctx.require(nets.same(list(R._node), before["nodes"]), "cut_to_order changed the node set")
    ctx.require(nets.same(before, nets.snap(H)), "cut_to_order changed its input")


@harness("C19.maxsimp", raises_are_violations=True)
def maxsimp(ctx, p):
    S = nets.build_H(ctx, _shape(p["shape"]), cls=xgi.SimplicialComplex)[0]
    ctx.info["op"] = "from_max_simplices"
    R = xgi.from_max_simplices(S)
    vals = [set(m) for m in S._edge.values()]
    want = [v for v in vals if not any(w is not v and len(w) > len(v) and all(x in w for x in v) for w in vals)]
    got = [set(m) for m in R._edge.values()]
    ctx.require(multiset_eq(got, want), "from_max_simplices does not keep exactly the maximal simplices")
    ctx.require(nets.same(list(R._node), list(S._node)), "from_max_simplices changed the node set")
    ctx.require(type(R) is xgi.Hypergraph, "from_max_simplices does not return a Hypergraph")


@harness("C19.maxsimp_ids", raises_are_violations=True)
def maxsimp_ids(ctx, p):
    """from_max_simplices when simplex ids differ from list positions (ids in a
    window so that a list indexed by an id is reachable by exhaustive forking)."""
    N, M, edges = _shape(p["shape"])
    nl = [ctx.label(f"n{i}", group="n") for i in range(N)]
    ctx.distinct(nl)
    el = [ctx.int(f"e{j}", -2, 5, kind="L", group="e") for j in range(M)]
    ctx.distinct(el)
    S = xgi.SimplicialComplex()
    for n in nl:
        S._node[n] = set()
        S._node_attr[n] = {}
    for j in range(M):
        S._edge[el[j]] = frozenset(nl[i] for i in edges[j])
        S._edge_attr[el[j]] = {}
        for i in edges[j]:
            S._node[nl[i]].add(el[j])
    S._edge_uid = ctx.counter(6)
    ctx.info["op"] = "from_max_simplices (ids != positions)"
    ctx.info["args"] = {"ids": el}
    R = xgi.from_max_simplices(S)
    vals = [set(m) for m in S._edge.values()]
    want = [v for v in vals if not any(w is not v and len(w) > len(v) and all(x in w for x in v) for w in vals)]
    ctx.require(multiset_eq([set(m) for m in R._edge.values()], want), "from_max_simplices does not keep exactly the maximal simplices")


LABEL_POOL = [(0, 0), (0, 1), "a", 3, "b", (1, 0)]


@harness("C19.complement_labels", raises_are_violations=True)
def complement_labels(ctx, p):
    """complement with tuple / string / mixed node labels (every injective assignment)."""
    N, M, edges = _shape(p["shape"])
    if M == 0:
        ctx.assume(False)
    pool = list(LABEL_POOL)
    nl = [pool.pop(ctx.choose(f"lab{i}", len(pool))) for i in range(N)]
    ctx.info["op"] = "complement (label types)"
    ctx.info["args"] = {"labels": nl}
    import warnings as _w
    from .. import stubs as _stubs

    with _stubs.uninstalled(), _w.catch_warnings():
        _w.simplefilter("ignore")
        H = xgi.Hypergraph()
        H.add_nodes_from(nl)
        for e in edges:
            H.add_edge([nl[i] for i in e])
        R = xgi.complement(H)
    mx = max(len(e) for e in edges)
    present = [frozenset(nl[i] for i in e) for e in edges]
    want = sorted((frozenset(c) for k in range(1, mx + 1) for c in itertools.combinations(nl, k) if frozenset(c) not in present), key=lambda f: sorted(map(str, f)))
    got = sorted((frozenset(m) for m in R._edge.values()), key=lambda f: sorted(map(str, f)))
    ctx.require(got == want, "complement does not hold exactly the absent node sets up to the maximum size")
    ctx.require(list(R._node) == nl, "complement changed the node set")


@harness("C19.lcc", raises_are_violations=True)
def lcc(ctx, p):
    H = nets.build_H(ctx, _shape(p["shape"]), attrs=True)[0]
    if not H._node:
        ctx.assume(False)
    ctx.info["op"] = "largest_connected_hypergraph"
    before = nets.snap(H)
    with warnings.catch_warnings():
        warnings.simplefilter("ignore")
        R = xgi.largest_connected_hypergraph(H)
    comps = components(H._node, H._edge)
    big = max(len(c) for c in comps)
    rn = list(R._node)
    ctx.require(any(len(c) == len(rn) and all(x in c for x in rn) for c in comps if len(c) == big), "result nodes are not a largest connected component")
    want = [e for e in before["edges"] if all(m in rn for m in before["members"][e])]
    ctx.require(nets.same(set(R._edge), set(want)), "result edges are not exactly the edges induced by the component")
    for e in want:
        if e in R._edge:
            ctx.require(nets.same(set(R._edge[e]), before["members"][e]), "largest_connected_hypergraph altered an edge")
    ctx.require(nets.same(before, nets.snap(H)), "largest_connected_hypergraph(in_place=False) changed its input")


def spec(tier, seed):
    if tier == "quick":
        shH = shapes.shapes_H_upto(3, 2) + shapes.shapes_H(2, 3)
        shS = shapes.shapes_S_upto(3)
        shD = shapes.shapes_D_upto(2, 1)
        small = shapes.shapes_H_upto(2, 1) + shapes.shapes_H(1, 2)
        comp = shapes.shapes_H_upto(3, 2)
    else:
        shH = shapes.shapes_H_upto(4, 3) + shapes.shapes_H(3, 4)
        shS = shapes.shapes_S_upto(4)
        shD = shapes.shapes_D_upto(2, 2)
        small = shapes.shapes_H_upto(2, 2)
        comp = shapes.shapes_H_upto(3, 3)
    units = []
    for s in shH:
        if s[0] > 0:
            units.append(("C19.cleanup", {"shape": s, "cls": "H"}))
        for h in ("relabel", "subhypergraph", "dual", "cut", "lcc"):
            units.append((f"C19.{h}", {"shape": s, "cls": "H"}))
    for s in comp:
        units.append(("C19.complement", {"shape": s, "cls": "H"}))
        if s[0] <= 3 and s[1] <= 2 and all(len(e) > 0 for e in s[2]):
            units.append(("C19.complement_labels", {"shape": s, "cls": "H"}))
    for s in shS:
        units.append(("C19.relabel", {"shape": s, "cls": "S"}))
        units.append(("C19.cut", {"shape": s, "cls": "S"}))
        units.append(("C19.maxsimp", {"shape": s, "cls": "S"}))
        if 0 < s[1] <= 7:
            units.append(("C19.maxsimp_ids", {"shape": s, "cls": "S"}))
    for s in shD:
        units.append(("C19.relabel", {"shape": s, "cls": "D"}))
    for s in small:
        for s2 in small:
            units.append(("C19.lshift", {"shape": s, "shape2": s2, "cls": "H"}))
    return {
        "units": units,
        "caps": {"paths": 200000, "wall": 900},
        "level": "model_checking",
        "bounds": {"shapes": f"{len(shH)} Hypergraph, {len(shS)} SimplicialComplex, {len(shD)} DiHypergraph shapes; << on {len(small)}^2 pairs with overlapping symbolic labels",
                   "labels": "unbounded integers; attribute values symbolic",
                   "selections": "one symbolic bit per node and per edge plus one absent id each; cleanup: all 32 flag sets; order in [-1,4]"},
        "assumptions": ["pre-state satisfies the class invariant and Fresh", "cleanup(connected=True) is exercised on networks with at least one node"],
        "outside": ["string labels", "cleanup of DiHypergraph/SimplicialComplex beyond relabelling"],
    }
