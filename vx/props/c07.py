"""C07 Copies, pickles and network-to-network constructors are equal and independent."""
import pickle
import warnings

import xgi

from .. import nets, ops, shapes, stubs
from ..runner import harness
from . import c04

CLS = {"H": xgi.Hypergraph, "D": xgi.DiHypergraph, "S": xgi.SimplicialComplex}
OPS = {"H": ops.OPS_H, "D": ops.OPS_D, "S": ops.OPS_S}
HEAVY = {"H": ops.HEAVY_H, "D": ops.HEAVY_D, "S": ops.HEAVY_S}
P = {"members": 2, "bulk": 1, "bulk_members": 2, "dimembers": 1, "bulk_dimembers": 1, "smembers": 3,
     "sbulk_first": 2, "sbulk_rest": 1, "max_orders": [None]}


def _shape(p):
    s = p["shape"]
    if p["cls"] == "D":
        return (s[0], s[1], tuple((tuple(t), tuple(h)) for t, h in s[2]))
    return (s[0], s[1], tuple(tuple(e) for e in s[2]))


def _build(ctx, p):
    s = _shape(p)
    if p["cls"] == "D":
        net = nets.build_D(ctx, s, attrs=True, str_labels=p.get("labels", False))[0]
    else:
        net = nets.build_H(ctx, s, cls=CLS[p["cls"]], attrs=True, str_labels=p.get("labels", False))[0]
    # nested mutable attribute values at all three levels
    w = ctx.label("nested")
    for n in net._node_attr:
        net._node_attr[n]["nest"] = {"list": [w]}
        break
    for e in net._edge_attr:
        net._edge_attr[e]["nest"] = [[w]]
        break
    net._net_attr["nest"] = {"deep": [w]}
    return net


def derive(net, how):
    with warnings.catch_warnings():
        warnings.simplefilter("ignore")
        if how == "copy":
            return net.copy()
        if how == "pickle":
            return pickle.loads(pickle.dumps(net))
        return net.__class__(net)


def _mutables(net, attrs=True):
    """ids of every mutable container reachable from the tables (not the ids)."""
    out = set()

    def walk(x):
        if isinstance(x, dict):
            out.add(id(x))
            for v in x.values():
                walk(v)
        elif isinstance(x, (list, set)):
            out.add(id(x))
            for v in x:
                walk(v)
        elif isinstance(x, (tuple, frozenset)):
            for v in x:
                walk(v)

    for t in (net._node, net._edge) + ((net._node_attr, net._edge_attr, net._net_attr) if attrs else ()):
        walk(t)
    return out


def _nested_edit(net):
    """In-place change of nested attribute values; returns how many were reached."""
    k = 0
    for a in list(net._node_attr.values()) + list(net._edge_attr.values()) + [net._net_attr]:
        v = a.get("nest")
        if isinstance(v, dict):
            for x in v.values():
                x.append("edited")
                k += 1
        elif isinstance(v, list):
            v[0].append("edited")
            k += 1
    return k


@harness("C07.equal", raises_are_violations=True)
def equal(ctx, p):
    """Equality, no shared mutable state, nested edits invisible, both stay fresh."""
    net = _build(ctx, p)
    ctx.info["op"] = p["how"]
    src_before = nets.snap(net, counter=True)
    cp = derive(net, p["how"])
    ctx.require(type(cp) is type(net), "derived network has a different class")
    ctx.require(nets.same(nets.snap(net), nets.snap(cp)), "derived network differs from its source")
    ctx.require(nets.same(src_before, nets.snap(net, counter=True)), "deriving a network changed the source")
    side = ctx.flag("edit_copy_side")
    if p["how"] == "ctor":
        # the property demands nested-attribute independence for copy() only; for the
        # constructor route only the structural containers must be unshared
        ctx.require(not (_mutables(net, False) & _mutables(cp, False)), "source and derived network share a structural container")
        ctx.info["args"] = {}
    else:
        ctx.require(not (_mutables(net) & _mutables(cp)), "source and derived network share a mutable container")
        a, b = (cp, net) if side else (net, cp)
        keep = nets.snap(b)
        reached = _nested_edit(a)
        ctx.info["args"] = {"edited": "derived" if side else "source", "nested_values_edited": reached}
        ctx.require(nets.same(keep, nets.snap(b)), "an in-place change of a nested attribute value is visible in the other network")
    c04.check_fresh(ctx, net, "source after " + p["how"])
    c04.check_fresh(ctx, cp, "derived network after " + p["how"])


@harness("C07.edit")
def edit(ctx, p):
    """One structural edit (symbolic arguments) of either network is invisible in the other."""
    net = _build(ctx, p)
    cp = derive(net, p["how"])
    ctx.info["op"] = p["op"]
    ctx.info["how"] = p["how"]
    side = ctx.flag("edit_copy_side")
    a, b = (cp, net) if side else (net, cp)
    keep = nets.snap(b, counter=True)
    with stubs.rng(ctx, "xgi.core.hypergraph"):
        outcome, exc, w = ops.apply(ctx, a, OPS[p["cls"]][p["op"]], P)
    ctx.info["outcome"] = outcome if exc is None else f"raised {type(exc).__name__}"
    ctx.info["edited"] = "derived" if side else "source"
    ctx.require(nets.same(keep, nets.snap(b, counter=True)), "a structural edit of one network is visible in the other")


@harness("C07.numeric")
def numeric(ctx, p):
    """Fresh ids on both sides for integer-like ids of other numeric types
    (concrete pool; shares C04's harness)."""
    c04.numeric(ctx, p)


def spec(tier, seed):
    if tier == "quick":
        sh = {"H": shapes.shapes_H_upto(2, 2), "D": shapes.shapes_D_upto(2, 1) + shapes.shapes_D(1, 2), "S": shapes.shapes_S_upto(3, (0,))}
        esh = {"H": shapes.shapes_H(2, 1) + shapes.shapes_H(2, 2)[:3], "D": shapes.shapes_D(2, 1)[:5], "S": shapes.shapes_S(3)[:3]}
    else:
        sh = {"H": shapes.shapes_H_upto(3, 3), "D": shapes.shapes_D_upto(2, 1) + shapes.shapes_D(1, 2) + shapes.shapes_D(2, 2)[::3], "S": shapes.shapes_S_upto(4, (0,))}
        esh = {"H": shapes.shapes_H(2, 1) + shapes.shapes_H(2, 2) + shapes.shapes_H(3, 1), "D": shapes.shapes_D(2, 1)[::2] + shapes.shapes_D(1, 2)[::2], "S": shapes.shapes_S(3) + shapes.shapes_S(2)}
    units = []
    for cls in "HDS":
        for how in ("copy", "pickle", "ctor"):
            for s in sh[cls]:
                units.append(("C07.equal", {"cls": cls, "shape": s, "how": how}))
                if s[0] and s[1]:
                    for lm in ("str", "tuple"):
                        units.append(("C07.equal", {"cls": cls, "shape": s, "how": how, "labels": lm}))
            for s in (esh[cls] if how == "copy" or tier != "quick" else esh[cls][:2]):
                for op in OPS[cls]:
                    if op in HEAVY[cls] and tier == "quick" and not op.endswith(("_2", "_5")):
                        continue
                    units.append(("C07.edit", {"cls": cls, "shape": s, "how": how, "op": op}))
    for cls in "HDS":
        units.append(("C07.numeric", {"cls": cls, "shape": None, "how": "numeric ids"}))
    return {
        "units": units,
        "caps": {"paths": 100000, "wall": 600},
        "level": "model_checking",
        "bounds": {"shapes": {k: f"{len(v)} shapes (equality) / {len(esh[k])} (follow-up edit)" for k, v in sh.items()},
                   "labels": "unbounded integers, and (equality harness) a string / a tuple as first node label and first edge id; attribute values symbolic; nested mutable attribute values at node, edge and network level",
                   "derivations": ["copy()", "pickle round trip", "constructor of the same class"],
                   "follow-up": "one mutator call with symbolic arguments on either side; one in-place nested edit; one automatic addition on each side"},
        "assumptions": ["pickle is exercised on the real __getstate__/__setstate__; itertools.count itself is pickled only in the concrete replay (scount during exploration)",
                        "pre-state satisfies the class invariant and Fresh"],
        "outside": ["attribute values that define their own __deepcopy__/__reduce__"],
    }
