"""C11 What is written to disk reads back as the same network (reduced reach).

The real writers and readers of xgi.readwrite run on networks with symbolic
labels, ids and attribute values.  During exploration the file boundary is a
contract stub (DESIGN 5/C11): `open` is an in-memory store that concatenates
what was written and hands it back split at newlines, and `json.dumps/loads`
is the JSON data model (dict keys become strings, tuples become lists, ints,
strings, booleans and None survive, anything else is a TypeError).  A rendered
label is an opaque token that contains neither whitespace, the delimiter nor
the comment character - the property's own premise ("any delimiter that cannot
occur in a label").  Every solver model is replayed against the unmodified
library with REAL files in a temporary directory and the real json module.

The incidence-matrix text format has no solver variable at all (entries are
0/1 determined by the enumerated shape and cross numpy's C reader/writer); it
is run as an exhaustive concrete grid and labelled as such in the evidence."""
import builtins
import os
import shutil
import tempfile
import warnings

import numpy as np
import xgi

from .. import nets, shapes, stubs, symx
from ..runner import harness
from .c10 import CLS, _build, _multiset, incid, nonempty

RW = ["xgi.readwrite.hif", "xgi.readwrite.json", "xgi.readwrite.edgelist", "xgi.readwrite.bipartite"]


# ---------------------------------------------------------------------------
# the file boundary as a contract
# ---------------------------------------------------------------------------
class JsonDoc:
    """What json.dumps returns during exploration: the normalised value."""

    def __init__(self, value):
        self.value = value


def _jkey(k):
    if isinstance(k, str):
        return k
    if isinstance(k, bool):
        return "true" if k else "false"
    if k is None:
        return "null"
    if isinstance(k, (int, symx.SymInt)):
        return str(k)
    if isinstance(k, float):
        return repr(k)
    raise TypeError(f"keys must be str, int, float, bool or None, not {type(k).__name__}")


def _jnorm(x):
    if isinstance(x, dict):
        return {_jkey(k): _jnorm(v) for k, v in x.items()}
    if isinstance(x, (list, tuple)):
        return [_jnorm(v) for v in x]
    if x is None or isinstance(x, (str, bool, int, float, symx.SymInt)):
        return x
    raise TypeError(f"Object of type {type(x).__name__} is not JSON serializable")


class JsonModel:
    @staticmethod
    def dumps(obj, indent=None, **kw):
        c = symx.CTX
        if c is not None:
            c.hit("json.dumps")
        return JsonDoc(_jnorm(obj))

    @staticmethod
    def loads(doc, **kw):
        c = symx.CTX
        if c is not None:
            c.hit("json.loads")
        if not isinstance(doc, JsonDoc):
            raise ValueError("not a JSON document")
        return _jnorm(doc.value)  # a fresh deep copy


class MemFile:
    def __init__(self, fs, path, mode):
        self.fs, self.path, self.mode = fs, path, mode
        if "w" in mode:
            fs.files[path] = []

    def __enter__(self):
        return self

    def __exit__(self, *a):
        return False

    def write(self, x):
        if "w" not in self.mode:
            raise OSError("not writable")
        if "b" in self.mode and not isinstance(x, bytes):
            raise TypeError("a bytes-like object is required")
        if "b" not in self.mode and not isinstance(x, (str, JsonDoc)):
            raise TypeError("write() argument must be str")
        self.fs.files[self.path].append(x)

    def _content(self):
        parts = self.fs.files[self.path]
        if len(parts) == 1 and isinstance(parts[0], JsonDoc):
            return parts[0]
        if "b" in self.mode:
            return b"".join(p if isinstance(p, bytes) else p.encode() for p in parts)
        return "".join(p.decode() if isinstance(p, bytes) else p for p in parts)

    def read(self):
        return self._content()

    def __iter__(self):
        return iter(self._content().splitlines(keepends=True))


class MemFS:
    def __init__(self):
        self.files = {}

    def open(self, path, mode="r", *a, **kw):
        c = symx.CTX
        if c is not None:
            c.hit("open")
        if "w" not in mode and path not in self.files:
            raise FileNotFoundError(path)
        return MemFile(self, path, mode)


class boundary:
    """Context manager: in-memory file store + JSON model during exploration,
    a real temporary directory and the real json module in concrete replay."""

    def __init__(self, ctx):
        self.ctx = ctx

    def __enter__(self):
        if self.ctx.symbolic:
            self.fs = MemFS()
            self.dir = "/mem"
            m = {}
            for mod in RW:
                m[(mod, "open")] = self.fs.open
            m[("xgi.readwrite.hif", "json")] = JsonModel
            m[("xgi.readwrite.json", "json")] = JsonModel
            self.p = stubs.patched(m)
            self.p.__enter__()
        else:
            self.dir = tempfile.mkdtemp(prefix="vxc11_")
            self.p = None
        return self

    def path(self, name):
        return f"{self.dir}/{name}"

    def mkdir(self, name):
        if not self.ctx.symbolic:
            os.makedirs(f"{self.dir}/{name}", exist_ok=True)
        return f"{self.dir}/{name}"

    def __exit__(self, *a):
        if self.p is not None:
            self.p.__exit__(*a)
        else:
            shutil.rmtree(self.dir, ignore_errors=True)
        return False


def _cast(ctx, atoms):
    """The documented type cast for ids read from a text file: int() in the
    concrete world; during exploration the inverse of the (injective) rendering."""
    if not ctx.symbolic:
        return builtins.int
    reg = {}
    for a in atoms:
        if isinstance(a, symx.SymInt):
            reg[builtins.str.__str__(str(a)) if isinstance(str(a), symx.SymStr) else str(a)] = a

    def cast(s):
        if isinstance(s, symx.SymStr):
            return s.sym
        t = s.strip()  # int() ignores surrounding whitespace
        if t in reg:
            return reg[t]
        return builtins.int(s)

    return cast


def _plain(s):
    """the plain text of a rendered label (token text of a SymStr)"""
    return builtins.str.__str__(s) if isinstance(s, symx.SymStr) else s


def _same_net(ctx, R, net, src, what, sc=False, attrs=True):
    a, b = nets.snap(R), src
    ctx.require(type(R) is type(net), f"{what}: network class differs")
    ctx.require(nets.same(set(a["nodes"]), set(b["nodes"])), f"{what}: nodes (incl. isolated) differ")
    if sc:
        ctx.require(_multiset(a["members"].values(), b["members"].values()), f"{what}: simplices differ")
    else:
        ctx.require(nets.same(a["members"], b["members"]), f"{what}: edges (incl. empty) or their members differ")
        if attrs:
            ctx.require(nets.same(a["edge_attr"], b["edge_attr"]), f"{what}: edge attributes differ")
    if attrs:
        ctx.require(nets.same(a["node_attr"], b["node_attr"]), f"{what}: node attributes differ")
        ctx.require(nets.same(a["net_attr"], b["net_attr"]), f"{what}: network attributes differ")


@harness("C11.json", raises_are_violations=True)
def json_files(ctx, p):
    net, nl, el, c = _build(ctx, p, attrs=p.get("attrs", True))
    how = p["how"]
    ctx.info["op"] = how
    src = nets.snap(net)
    sc = p["cls"] == "S"
    with boundary(ctx) as B, warnings.catch_warnings():
        warnings.simplefilter("ignore")
        if how == "hif":
            path = B.path("net.hif.json")
            xgi.write_hif(net, path)
            R = xgi.read_hif(path)
            _same_net(ctx, R, net, src, "write_hif/read_hif", sc=sc)
        elif how == "hif_twice":
            # a path is overwritten, not appended to; two files do not interfere
            path, other = B.path("a.json"), B.path("b.json")
            xgi.write_hif(xgi.Hypergraph([[1, 2, 3]]), path)
            xgi.read_hif(path)  # read - write - read: what is read is the CURRENT content
            xgi.write_hif(net, other)
            xgi.write_hif(net, path)
            R = xgi.read_hif(path)
            _same_net(ctx, R, net, src, "write_hif twice to one path", sc=sc)
            R2 = xgi.read_hif(other)
            _same_net(ctx, R2, net, src, "write_hif to a second path", sc=sc)
        elif how in ("hif_collection_list", "hif_collection_dict"):
            d = B.mkdir("col")
            net2 = xgi.Hypergraph()
            x = ctx.label("extra_n")
            net2.add_edge([x], idx=ctx.label("extra_e"))
            src2 = nets.snap(net2)
            if how.endswith("list"):
                xgi.write_hif_collection([net2, net2], d, collection_name="c")
                xgi.read_hif_collection(f"{d}/c_collection_information.json")  # read - rewrite - read
                xgi.write_hif_collection([net, net2], d, collection_name="c")
                names = ["0", "1"]
            else:
                xgi.write_hif_collection({"first": net2, "second": net2}, d, collection_name="c")
                xgi.read_hif_collection(f"{d}/c_collection_information.json")
                xgi.write_hif_collection({"first": net, "second": net2}, d, collection_name="c")
                names = ["first", "second"]
            col = xgi.read_hif_collection(f"{d}/c_collection_information.json")
            ctx.require(sorted(map(str, col)) == sorted(names), "HIF collection: dataset names differ")
            got = {str(k): v for k, v in col.items()}
            if names[0] in got and names[1] in got:
                _same_net(ctx, got[names[0]], net, src, "HIF collection member", sc=sc)
                _same_net(ctx, got[names[1]], net2, src2, "HIF collection member")
        elif how == "json":
            path = B.path("net.json")
            xgi.write_json(xgi.Hypergraph([[1, 2, 3]]), path)
            xgi.read_json(path)  # read - rewrite - read
            xgi.write_json(net, path)
            it = stubs.sint if ctx.symbolic else builtins.int
            R = xgi.read_json(path, nodetype=it, edgetype=it)
            a, b = nets.snap(R), src
            ctx.require(nets.same(set(a["nodes"]), set(b["nodes"])) and nets.same(a["members"], b["members"]), "write_json/read_json: nodes (incl. isolated) or edges (incl. empty) differ")
            ctx.require(nets.same(a["node_attr"], b["node_attr"]) and nets.same(a["edge_attr"], b["edge_attr"]) and nets.same(a["net_attr"], b["net_attr"]), "write_json/read_json: attributes differ")
        elif how in ("json_collection_list", "json_collection_dict"):
            d = B.mkdir("jcol")
            net2 = xgi.Hypergraph()
            net2.add_edge([ctx.label("extra_n")], idx=ctx.label("extra_e"))
            src2 = nets.snap(net2)
            if how.endswith("list"):
                xgi.write_json([net, net2], d, collection_name="c")
                names = ["0", "1"]
            else:
                xgi.write_json({"first": net, "second": net2}, d, collection_name="c")
                names = ["first", "second"]
            it = stubs.sint if ctx.symbolic else builtins.int
            col = xgi.read_json(f"{d}/c_collection_information.json", nodetype=it, edgetype=it)
            ctx.require(isinstance(col, dict) and sorted(map(str, col)) == sorted(names), "JSON collection: dataset names differ")
            got = {str(k): v for k, v in col.items()}
            for nm, (nn, ss) in zip(names, ((net, src), (net2, src2))):
                a = nets.snap(got[nm])
                ctx.require(nets.same(set(a["nodes"]), set(ss["nodes"])) and nets.same(a["members"], ss["members"]), "JSON collection member: nodes or edges differ")
                ctx.require(nets.same(a["node_attr"], ss["node_attr"]) and nets.same(a["edge_attr"], ss["edge_attr"]), "JSON collection member: attributes differ")
    ctx.require(nets.same(src, nets.snap(net)), "writing changed its input")


DELIMS = {"space_none": (" ", None), "space_space": (" ", " "), "comma": (",", ","), "tab_none": ("\t", None), "tab_tab": ("\t", "\t"), "bar": ("|", "|"), "multi": ("::", "::")}


@harness("C11.text", raises_are_violations=True)
def text_files(ctx, p):
    net, nl, el, c = _build(ctx, p, attrs=False)
    how = p["how"]
    wd, rd = DELIMS[p["delim"]]
    ctx.info["op"] = f"{how}:{p['delim']}"
    src = nets.snap(net)
    inc = incid(net)
    if any(len(m) == 0 for m in inc.values()):
        ctx.assume(False)  # text formats carry incidences only
    cast = _cast(ctx, list(nl) + list(el))
    with boundary(ctx) as B, warnings.catch_warnings():
        warnings.simplefilter("ignore")
        if how == "edgelist":
            path = B.path("edges.txt")
            xgi.write_edgelist(xgi.Hypergraph([[1, 2, 3], [4]]), path, delimiter=wd)
            xgi.read_edgelist(path, delimiter=rd)  # read - rewrite - read
            xgi.write_edgelist(net, path, delimiter=wd)
            # the documented cast may be any callable: one that returns tuples
            tcast = lambda t: (cast(t), 0)
            Rt = xgi.read_edgelist(path, delimiter=rd, nodetype=tcast)
            gott = [set(m) for m in Rt._edge.values()]
            wantt = [{(n, 0) for n in inc[e]} for e in src["edges"]]
            ctx.require(nets.same(gott, wantt), "edge-list file read with a tuple-valued nodetype: members differ or edge order changed")
            R = xgi.read_edgelist(path, delimiter=rd, nodetype=cast)
            got = [set(m) for m in R._edge.values()]
            want = [inc[e] for e in src["edges"]]
            ctx.require(nets.same(got, want), "edge-list file: members differ or edge order changed")
            ctx.require(nets.same(set(R._node), set().union(*want) if want else set()), "edge-list file: node set differs from the union of the members")
            # without a cast the labels come back as their renderings
            R2 = xgi.read_edgelist(path, delimiter=rd)
            got2 = [sorted(_plain(x) for x in m) for m in R2._edge.values()]
            want2 = [sorted(_plain(str(x)) for x in inc[e]) for e in src["edges"]]
            ctx.require(got2 == want2, "edge-list file read without nodetype: rendered labels differ")
            # a comment line and a trailing comment do not change what is read
            if ctx.symbolic:
                B.fs.files[path] = [b"# header\n"] + list(B.fs.files[path]) + [b"# trailer\n"]
            else:
                body = open(path, "rb").read()
                open(path, "wb").write(b"# header\n" + body + b"# trailer\n")
            R3 = xgi.read_edgelist(path, delimiter=rd, nodetype=cast)
            ctx.require(nets.same([set(m) for m in R3._edge.values()], want), "edge-list file: comment lines change what is read")
            _fresh(ctx, R, "read_edgelist")
        elif how == "bipartite":
            path = B.path("bip.txt")
            xgi.write_bipartite_edgelist(net, path, delimiter=wd)
            if not any(inc.values()):
                ctx.assume(False)
            R = xgi.read_bipartite_edgelist(path, delimiter=rd, nodetype=cast, edgetype=cast)
            ctx.require(nets.same(incid(R), nonempty(inc)), "bipartite edge-list file: incidences or labels differ")
            ctx.require(nets.same(list(R._edge), [e for e in src["edges"] if inc[e]]), "bipartite edge-list file: edge order differs")
            Rd = xgi.read_bipartite_edgelist(path, delimiter=rd, nodetype=cast, edgetype=cast, dual=True)
            memb = {}
            for e, m in inc.items():
                for n in m:
                    memb.setdefault(n, set()).add(e)
            ctx.require(nets.same(incid(Rd), memb), "bipartite edge-list file read with dual=True is not the dual")
            # nodetype and edgetype follow the ROLE, not the column: tag what the edge cast produced
            ecast = lambda t: ("E", cast(t))
            Rt = xgi.read_bipartite_edgelist(path, delimiter=rd, nodetype=cast, edgetype=ecast)
            ctx.require(nets.same(incid(Rt), {("E", e): m for e, m in nonempty(inc).items()}), "bipartite edge-list file: nodetype/edgetype are not applied to nodes/edges respectively")
            Rtd = xgi.read_bipartite_edgelist(path, delimiter=rd, nodetype=cast, edgetype=ecast, dual=True)
            ctx.require(nets.same(incid(Rtd), {("E", n): es for n, es in memb.items()}), "bipartite edge-list file with dual=True: nodetype/edgetype are not applied to the (dual) nodes/edges respectively")
            Rn = xgi.read_bipartite_edgelist(path, delimiter=rd, nodetype=cast, dual=True)
            ctx.require(nets.same({_plain(k): v for k, v in incid(Rn).items()}, {_plain(str(n)): es for n, es in memb.items()}), "bipartite edge-list file with dual=True and only nodetype: cast applied to the wrong column")
            _fresh(ctx, R, "read_bipartite_edgelist")
    ctx.require(nets.same(src, nets.snap(net)), "writing changed its input")


def _fresh(ctx, R, what):
    """C04 on a network that came from a file: one automatic edge overwrites nothing."""
    before = {e: set(m) for e, m in R._edge.items()}
    x = ctx.label("fresh_member")
    R.add_edge([x])
    ok = len(R._edge) == len(before) + 1
    for e, m in before.items():
        ok = ok and e in R._edge and nets.same(set(R._edge[e]), m)
    ctx.require(ok, f"{what}: an automatic edge added after reading replaced an edge read from the file")


@harness("C11.incidence_file", raises_are_violations=True)
def incidence_file(ctx, p):
    """No solver variable: exhaustive concrete grid over shapes x delimiters
    (1 x m and n x 1 matrices included), through numpy's real text writer/reader."""
    s = p["shape"]
    N, M, edges = s[0], s[1], [tuple(e) for e in s[2]]
    ctx.info["op"] = "incidence_file"
    with stubs.uninstalled(), warnings.catch_warnings():
        warnings.simplefilter("ignore")
        H = xgi.Hypergraph()
        H.add_nodes_from(range(N))
        for e in edges:
            H.add_edge(list(e))
        d = tempfile.mkdtemp(prefix="vxc11_")
        try:
            path = f"{d}/inc.txt"
            wd, rd = DELIMS[p["delim"]]
            xgi.write_incidence_matrix(H, path, delimiter=wd)
            R = xgi.read_incidence_matrix(path, delimiter=rd)
        finally:
            shutil.rmtree(d, ignore_errors=True)
        want = [set(e) for e in edges]
        got = [set(m) for m in R._edge.values()]
    ctx.require(got == want, "incidence-matrix file: incidences differ after the round trip")
    ctx.require(set(R._node) == set(range(N)), "incidence-matrix file: node set differs")


def spec(tier, seed):
    if tier == "quick":
        sh = {"H": shapes.shapes_H_upto(3, 2) + shapes.shapes_H(2, 3), "D": shapes.shapes_D_upto(2, 2), "S": shapes.shapes_S_upto(3)}
        inc_sh = [s for s in shapes.shapes_H_upto(3, 3)]
    else:
        sh = {"H": shapes.shapes_H_upto(4, 3) + shapes.shapes_H(3, 4), "D": shapes.shapes_D_upto(3, 2), "S": shapes.shapes_S_upto(4)}
        inc_sh = [s for s in shapes.shapes_H_upto(4, 4)]
    units = []
    for cls in ("H", "D", "S"):
        for s in sh[cls]:
            for how in ("hif", "hif_twice", "hif_collection_list", "hif_collection_dict"):
                units.append(("C11.json", {"cls": cls, "shape": s, "how": how}))
            units.append(("C11.json", {"cls": cls, "shape": s, "how": "hif", "attrs": False}))
    for s in sh["H"]:
        for how in ("json", "json_collection_list", "json_collection_dict"):
            units.append(("C11.json", {"cls": "H", "shape": s, "how": how}))
        units.append(("C11.json", {"cls": "H", "shape": s, "how": "json", "attrs": False}))
    for s in sh["H"]:
        if s[1] == 0 or any(len(e) == 0 for e in s[2]):
            continue
        for dl in DELIMS:
            for how in ("edgelist", "bipartite"):
                units.append(("C11.text", {"cls": "H", "shape": s, "how": how, "delim": dl}))
    for s in inc_sh:
        # matrices need every node in some edge and no empty edge to be representable
        if s[0] == 0 or s[1] == 0 or any(len(e) == 0 for e in s[2]) or set().union(*[set(e) for e in s[2]]) != set(range(s[0])):
            continue
        for dl in ("space_none", "comma", "tab_none"):
            units.append(("C11.incidence_file", {"cls": "H", "shape": s, "delim": dl}))
    return {
        "units": units,
        "caps": {"paths": 50000, "wall": 600},
        "level": "other",
        "bounds": {"shapes": {k: f"{len(v)} shapes" for k, v in sh.items()},
                   "labels": "unbounded solver integers for node labels, edge ids and attribute values",
                   "delimiters": sorted(DELIMS),
                   "incidence files": f"{len(inc_sh)} concrete shapes x 3 delimiters, no solver variable (numpy text I/O)"},
        "assumptions": ["file boundary = contract stub during exploration: open() is an in-memory store (content = concatenation of writes, iteration splits at newlines); json.dumps/loads is the JSON data model",
                        "a rendered label is an opaque token without whitespace, delimiter or comment character; rendering is injective and the documented cast inverts it",
                        "every solver model is replayed with real files in a temporary directory and the real json module",
                        "text formats carry incidences only: shapes with empty edges are excluded there, isolated nodes are not expected back"],
        "outside": ["string-level behaviour of str.split/strip/find/encode on labels that contain delimiter, comment or whitespace characters (the property excludes them)",
                    "JSON representability of exotic label/value types; float formatting of numpy.savetxt beyond 0/1 entries",
                    "the incidence-matrix text format is a concrete exhaustive grid, not solver-decided (no symbolic dimension exists)"],
        "explanation": "reduced reach: the solver quantifies labels, ids and attribute values through the real writer/reader code; the bytes on disk are modelled by contract during exploration and are real in every replay",
    }
