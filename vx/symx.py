"""symx: replay-based symbolic execution of the real xgi code on CPython with z3.

Proxy objects (SymInt / SymBool / SymReal) wrap z3 terms.  A label-kind SymInt
has a constant hash and a solver-decided __eq__, so the library's own
dict/set/IDDict machinery works on symbolic ids without realising them.  A branch
on a proxy asks the solver which outcomes are feasible under the current path
condition, takes one and schedules the other; exploration is depth first with
re-execution from the start under a recorded decision prefix.

Engine rules (see DESIGN.md section 2/3):
  * every cached decision keeps a reference to its AST;
  * forced decisions are traced as well as open ones, each with the structural
    hash of its condition, and a replayed prefix that meets a different
    condition is an engine error;
  * every path ends with check() == sat.
"""
import signal
import time
from fractions import Fraction

import z3

K = 0x5CA1AB1E  # the constant hash of label-kind symbolic ids


class SymxUnsupported(BaseException):
    """An operation the proxies do not model was requested (engine limit)."""


class SymxInconclusive(BaseException):
    """A path could not be decided (too many feasible values, solver unknown)."""


class SymxEngineError(BaseException):
    """The engine caught itself misbehaving (diverging replay, infeasible path)."""


class PathAbort(BaseException):
    """Raised by assume() when the assumption is infeasible on this path."""


CTX = None  # the context of the path that is executing


def _ctx():
    if CTX is None:
        raise SymxEngineError("symbolic value used outside a path")
    return CTX


# ---------------------------------------------------------------------------
# proxies
# ---------------------------------------------------------------------------


class SymBool:
    __slots__ = ("e", "neg", "key")

    def __init__(self, e, neg=False, key=None):
        self.e = e
        self.neg = neg
        self.key = key  # (uid, uid) of an id equality: decided once per path

    def term(self):
        return z3.Not(self.e) if self.neg else self.e

    def __bool__(self):
        c = _ctx()
        d = c.branch(self.e)
        if self.key is not None:
            c.eqdec[self.key] = (d, self.e)
        return (not d) if self.neg else d

    def __invert__(self):
        return SymBool(self.e, not self.neg, self.key)

    def __and__(self, o):
        if isinstance(o, SymBool):
            return SymBool(z3.And(self.term(), o.term()))
        return self if o else False

    __rand__ = __and__

    def __or__(self, o):
        if isinstance(o, SymBool):
            return SymBool(z3.Or(self.term(), o.term()))
        return True if o else self

    __ror__ = __or__

    def __eq__(self, o):
        if isinstance(o, SymBool):
            return SymBool(self.term() == o.term())
        if isinstance(o, bool):
            return self if o else ~self
        return False

    def __hash__(self):
        raise SymxUnsupported("hash of SymBool")

    # bool is an int in Python: sum(x == k for ...) must work
    def as_int(self):
        return SymInt(z3.If(self.term(), z3.IntVal(1), z3.IntVal(0)), "N")

    def __add__(self, o):
        return self.as_int() + (o.as_int() if isinstance(o, SymBool) else o)

    __radd__ = __add__

    def __sub__(self, o):
        return self.as_int() - (o.as_int() if isinstance(o, SymBool) else o)

    def __rsub__(self, o):
        return o - self.as_int()

    def __mul__(self, o):
        return self.as_int() * (o.as_int() if isinstance(o, SymBool) else o)

    __rmul__ = __mul__

    def __repr__(self):
        return f"SymBool({self.term()})"


def _is_num(o):
    return isinstance(o, (int, SymInt)) and not isinstance(o, SymBool)


class SymInt:
    """A z3 Int.  kind 'L' = label (constant hash), 'N' = bounded number."""

    __slots__ = ("e", "kind", "group", "cval", "uid")

    def __init__(self, e, kind="L", group=None, cval=None):
        self.e = e
        self.kind = kind
        self.group = group  # members of one group are pairwise distinct atoms
        self.cval = cval  # python int when the term is a literal
        self.uid = e.get_id()  # z3 hash-conses terms: equal ids = same term (while alive)

    # -- construction helpers
    @staticmethod
    def const(v, kind="L"):
        return SymInt(z3.IntVal(int(v)), kind, None, int(v))

    def _other(self, o):
        """-> (z3 term, kind, cval) or None when o is not a number."""
        if isinstance(o, SymInt):
            return o.e, o.kind, o.cval
        if isinstance(o, bool):
            return z3.IntVal(int(o)), "N", int(o)
        if isinstance(o, int):
            return z3.IntVal(o), "N", o
        if isinstance(o, SymReal):
            return None
        if isinstance(o, float):
            if o != o or o in (float("inf"), float("-inf")):
                return None
            if o.is_integer():
                return z3.IntVal(int(o)), "N", int(o)
            return None
        try:  # numpy integer scalars
            import numpy as np

            if isinstance(o, np.integer):
                return z3.IntVal(int(o)), "N", int(o)
        except Exception:
            pass
        return None

    def _kind(self, k2):
        return "L" if (self.kind == "L" or k2 == "L") else "N"

    # -- hashing / identity
    def __hash__(self):
        if self.kind == "L":
            return K
        return hash(_ctx().concretize(self.e))

    def __index__(self):
        if self.cval is not None:
            return self.cval
        return _ctx().concretize(self.e)

    def __eq__(self, o):
        if o is self:
            return True
        if isinstance(o, SymInt):
            if self.group is not None and self.group == o.group:
                return False  # distinct atoms of one group (asserted once)
            if self.cval is not None and o.cval is not None:
                return self.cval == o.cval
            a, b = self.uid, o.uid
            if a == b:
                return True
            key = (a, b) if a < b else (b, a)
            hit = _ctx().eqdec.get(key)
            if hit is not None:
                return hit[0]
            return SymBool(self.e == o.e, False, key)
        if type(o) is int:
            if self.cval is not None:
                return self.cval == o
            key = (self.uid, "i", o)
            hit = _ctx().eqdec.get(key)
            if hit is not None:
                return hit[0]
            return SymBool(self.e == o, False, key)
        t = self._other(o)
        if t is None:
            if isinstance(o, float):
                return _real_cmp(self, o, "eq")
            if isinstance(o, SymReal):
                return SymBool(z3.ToReal(self.e) == o.e)
            return False
        if self.cval is not None:
            return self.cval == t[2]
        return SymBool(self.e == t[0])

    def __ne__(self, o):
        r = self.__eq__(o)
        if isinstance(r, SymBool):
            return ~r
        return not r

    def _cmp(self, o, op):
        t = self._other(o)
        if t is None:
            if isinstance(o, float):
                return _real_cmp(self, o, op)
            if isinstance(o, SymReal):
                a, b = z3.ToReal(self.e), o.e
                return SymBool({"lt": a < b, "le": a <= b, "gt": a > b, "ge": a >= b}[op])
            return NotImplemented
        if self.cval is not None and t[2] is not None:
            a, b = self.cval, t[2]
            return {"lt": a < b, "le": a <= b, "gt": a > b, "ge": a >= b}[op]
        a, b = self.e, t[0]
        return SymBool({"lt": a < b, "le": a <= b, "gt": a > b, "ge": a >= b}[op])

    def __lt__(self, o):
        return self._cmp(o, "lt")

    def __le__(self, o):
        return self._cmp(o, "le")

    def __gt__(self, o):
        return self._cmp(o, "gt")

    def __ge__(self, o):
        return self._cmp(o, "ge")

    def __bool__(self):
        if self.cval is not None:
            return self.cval != 0
        return not _ctx().branch(self.e == 0)

    # -- arithmetic
    def _arith(self, o, f, pyf):
        t = self._other(o)
        if t is None:
            if isinstance(o, SymReal):
                return NotImplemented
            if isinstance(o, float):
                return f_real(self, o, pyf)
            return NotImplemented
        if self.cval is not None and t[2] is not None:
            return SymInt.const(pyf(self.cval, t[2]), self._kind(t[1]))
        return SymInt(f(self.e, t[0]), self._kind(t[1]))

    def __add__(self, o):
        return self._arith(o, lambda a, b: a + b, lambda a, b: a + b)

    __radd__ = __add__

    def __sub__(self, o):
        return self._arith(o, lambda a, b: a - b, lambda a, b: a - b)

    def __rsub__(self, o):
        return self._arith(o, lambda a, b: b - a, lambda a, b: b - a)

    def __mul__(self, o):
        return self._arith(o, lambda a, b: a * b, lambda a, b: a * b)

    __rmul__ = __mul__

    def __neg__(self):
        if self.cval is not None:
            return SymInt.const(-self.cval, self.kind)
        return SymInt(-self.e, self.kind)

    def __pos__(self):
        return self

    def __abs__(self):
        if self.cval is not None:
            return SymInt.const(abs(self.cval), self.kind)
        return SymInt(z3.If(self.e >= 0, self.e, -self.e), self.kind)

    def _posdiv(self, o):
        t = self._other(o)
        if t is None or t[2] is None or t[2] <= 0:
            raise SymxUnsupported("// or % by a non-constant or non-positive divisor")
        return t

    def __floordiv__(self, o):
        t = self._posdiv(o)
        if self.cval is not None:
            return SymInt.const(self.cval // t[2], self.kind)
        return SymInt(self.e / t[0], self.kind)  # z3 int div = floor for positive divisor

    def __mod__(self, o):
        t = self._posdiv(o)
        if self.cval is not None:
            return SymInt.const(self.cval % t[2], self.kind)
        return SymInt(self.e % t[0], self.kind)

    def __rpow__(self, base):
        if base == -1 and not isinstance(base, SymInt):
            if self.cval is not None:
                return SymInt.const((-1) ** self.cval, "N")
            return SymInt(z3.If(self.e % 2 == 0, z3.IntVal(1), z3.IntVal(-1)), "N")
        raise SymxUnsupported("pow with symbolic exponent")

    def __pow__(self, o):
        if isinstance(o, int) and 0 <= o <= 4:
            r = SymInt.const(1, self.kind)
            for _ in range(o):
                r = r * self
            return r
        raise SymxUnsupported("pow")

    def __truediv__(self, o):
        return SymReal(z3.ToReal(self.e)) / o

    def __rtruediv__(self, o):
        return SymReal.of(o) / SymReal(z3.ToReal(self.e))

    # -- conversions the interpreter insists on
    def __int__(self):
        if self.cval is not None:
            return self.cval
        raise SymxUnsupported("int() of a symbolic value (no module shadow here)")

    def __float__(self):
        if self.cval is not None:
            return float(self.cval)
        raise SymxUnsupported("float() of a symbolic value (no module shadow here)")

    def __repr__(self):
        return f"<{self.e}>"

    def __str__(self):
        if self.cval is not None:
            return str(self.cval)
        return SymStr(self)

    def __format__(self, spec):
        return repr(self)

    def __deepcopy__(self, memo):
        return self

    def __copy__(self):
        return self

    def __reduce__(self):
        return (_unpickle_symint, (_ctx().register_pickle(self),))

    def is_integer(self):
        return True


# library code may ask isinstance(id, numbers.Integral): a symbolic id is an integer
import numbers as _numbers

_numbers.Integral.register(SymInt)


class SymStr(str):
    """str(SymInt): models exactly one fact - decimal rendering of integers is
    injective.  Equality/hash defer to the wrapped SymInt; int() (through the
    sint shadow) maps back to it."""

    def __new__(cls, sym):
        o = str.__new__(cls, f"<{sym.e}>")
        o.sym = sym
        return o

    def __hash__(self):
        return K ^ 0x5757

    def __eq__(self, o):
        if isinstance(o, SymStr):
            return self.sym == o.sym
        if isinstance(o, str):
            try:
                v = int(o)
            except ValueError:
                return False
            if str(v) != o:
                return False
            return self.sym == v
        return False

    def __ne__(self, o):
        r = self.__eq__(o)
        return ~r if isinstance(r, SymBool) else not r

    def __lt__(self, o):
        raise SymxUnsupported("ordering of rendered symbolic integers")

    def __deepcopy__(self, memo):
        return self

    def __reduce__(self):
        return (SymStr, (self.sym,))


def _unpickle_symint(i):
    return _ctx().pickled[i]


def _real_cmp(si, f, op):
    if f != f:
        return op == "ne"
    if f == float("inf"):
        return op in ("lt", "le")
    if f == float("-inf"):
        return op in ("gt", "ge")
    a, b = z3.ToReal(si.e), z3.RealVal(Fraction(f).limit_denominator(10**12))
    return SymBool({"lt": a < b, "le": a <= b, "gt": a > b, "ge": a >= b, "eq": a == b}[op])


def f_real(si, f, pyf):
    return pyf(SymReal(z3.ToReal(si.e)), f)


class SymReal:
    """A z3 Real; only for random draws and probabilities, never for IEEE results."""

    __slots__ = ("e",)

    def __init__(self, e):
        self.e = e

    @staticmethod
    def of(o):
        if isinstance(o, SymReal):
            return o
        if isinstance(o, SymInt):
            return SymReal(z3.ToReal(o.e))
        if isinstance(o, (int, float)):
            if isinstance(o, float) and (o != o or o in (float("inf"), float("-inf"))):
                raise SymxUnsupported("non-finite float in real arithmetic")
            return SymReal(z3.RealVal(Fraction(o)))
        if type(o).__module__ == "numpy":
            try:
                return SymReal(z3.RealVal(Fraction(o.item())))
            except Exception:
                pass
        if isinstance(o, Fraction):
            return SymReal(z3.RealVal(o))
        raise SymxUnsupported(f"real of {type(o)}")

    def _cmp(self, o, op):
        if isinstance(o, float) and o == float("inf"):
            return op in ("lt", "le")
        if isinstance(o, float) and o == float("-inf"):
            return op in ("gt", "ge")
        b = SymReal.of(o).e
        a = self.e
        return SymBool({"lt": a < b, "le": a <= b, "gt": a > b, "ge": a >= b, "eq": a == b}[op])

    def __lt__(self, o):
        return self._cmp(o, "lt")

    def __le__(self, o):
        return self._cmp(o, "le")

    def __gt__(self, o):
        return self._cmp(o, "gt")

    def __ge__(self, o):
        return self._cmp(o, "ge")

    def __eq__(self, o):
        if o is self:
            return True
        if not isinstance(o, (int, float, SymInt, SymReal)):
            return False
        return self._cmp(o, "eq")

    def __ne__(self, o):
        r = self.__eq__(o)
        return ~r if isinstance(r, SymBool) else not r

    def __hash__(self):
        raise SymxUnsupported("hash of SymReal")

    def __add__(self, o):
        return SymReal(self.e + SymReal.of(o).e)

    __radd__ = __add__

    def __sub__(self, o):
        return SymReal(self.e - SymReal.of(o).e)

    def __rsub__(self, o):
        return SymReal(SymReal.of(o).e - self.e)

    def __mul__(self, o):
        return SymReal(self.e * SymReal.of(o).e)

    __rmul__ = __mul__

    def __truediv__(self, o):
        if isinstance(o, (int, float)) and o != 0:
            return SymReal(self.e / SymReal.of(o).e)
        raise SymxUnsupported("division by a symbolic value")

    def __neg__(self):
        return SymReal(-self.e)

    def __repr__(self):
        return f"<{self.e}>"


# ---------------------------------------------------------------------------
# contexts
# ---------------------------------------------------------------------------


class Violation:
    def __init__(self, clause, detail, model):
        self.clause = clause
        self.detail = detail
        self.model = model
        self.alternatives = []


_SOLVER = [None, 0]


def _shared_solver():
    """One solver per process, reused across paths with push/pop (creating a
    solver costs more than a whole path's queries)."""
    import os

    if _SOLVER[0] is None or _SOLVER[1] != os.getpid():
        _SOLVER[0] = z3.SimpleSolver()
        _SOLVER[1] = os.getpid()
    return _SOLVER[0]


class SymCtx:
    symbolic = True

    def __init__(self, prefix, max_index=64):
        self.solver = _shared_solver()
        self.solver.push()
        self.model = None  # a model of the current path condition, when known
        self.eqdec = {}  # decided id equalities: key -> (decision, AST kept alive)
        self.reuse = False
        self.prefix = prefix
        self.trace = []
        self.known = {}
        self.vars = {}  # name -> (z3 const, sort tag)
        self.nq = 0
        self.tsolve = 0.0
        self.violations = []
        self.pickled = []
        self.max_index = max_index
        self.concretizations = 0
        self.info = {}
        self.stub_hits = {}
        self.seq = {}

    # -- solver plumbing
    def check(self, *extra):
        self.nq += 1
        t = time.perf_counter()
        r = self.solver.check(*extra)
        self.tsolve += time.perf_counter() - t
        if r == z3.unknown:
            raise SymxInconclusive("solver returned unknown")
        return r

    def _truth(self, cond):
        """Value of cond in the cached model of the path condition, or None."""
        if self.model is None:
            return None
        v = self.model.eval(cond, model_completion=True)
        if z3.is_true(v):
            return True
        if z3.is_false(v):
            return False
        return None

    def branch(self, cond):
        key = cond.get_id()
        hit = self.known.get(key)
        if hit is not None:
            return hit[1]
        i = len(self.trace)
        h = cond.hash()
        if i < len(self.prefix):
            ent = self.prefix[i]
            if ent[0] != "b" or ent[3] != h:
                raise SymxEngineError(f"replay diverged at decision {i}")
            d, tag = ent[1], ent[2]
            if tag == "open":
                self.solver.add(cond if d else z3.Not(cond))
            self.model = None
        else:
            # the cached model witnesses one side; only the other needs a query
            tv = self._truth(cond)
            if tv is True:
                if self.check(z3.Not(cond)) == z3.sat:
                    d, tag = True, "open"
                    self.solver.add(cond)  # cached model still satisfies the path
                else:
                    d, tag = True, "forced"
            elif tv is False:
                if self.check(cond) == z3.sat:
                    d, tag = True, "open"
                    self.model = self.solver.model()
                    self.solver.add(cond)
                else:
                    d, tag = False, "forced"
            else:
                if self.check(cond) != z3.sat:
                    d, tag = False, "forced"
                    if self.check() == z3.sat:
                        self.model = self.solver.model()
                else:
                    m1 = self.solver.model()
                    if self.check(z3.Not(cond)) != z3.sat:
                        d, tag = True, "forced"
                    else:
                        d, tag = True, "open"
                        self.solver.add(cond)
                    self.model = m1
        self.trace.append(("b", d, tag, h))
        self.known[key] = (cond, d)  # keeps the AST alive: ids are not reused
        return d

    def concretize(self, e):
        """Exhaustive fork over the feasible values of an Int term."""
        e = z3.simplify(e)
        if z3.is_int_value(e):
            return e.as_long()
        self.concretizations += 1
        for _ in range(self.max_index):
            i = len(self.trace)
            if i < len(self.prefix):
                ent = self.prefix[i]
                if ent[0] != "v":
                    raise SymxEngineError(f"replay diverged at value {i}")
                v = ent[1]
            else:
                if self.model is None:
                    if self.check() != z3.sat:
                        raise SymxEngineError("path infeasible in concretize")
                    self.model = self.solver.model()
                v = self.model.eval(e, model_completion=True).as_long()
            self.trace.append(("v", v))
            if self.branch(e == v):
                return v
        raise SymxInconclusive("more than max_index feasible values for an index")

    # -- variables
    def _var(self, name, sort):
        if name in self.vars:
            if self.reuse:  # twin runs: the same names denote the same variables
                return self.vars[name][0]
            raise SymxEngineError(f"variable {name} created twice")
        v = {"int": z3.Int, "bool": z3.Bool, "real": z3.Real}[sort](name)
        self.vars[name] = (v, sort)
        return v

    def label(self, name, group=None):
        return SymInt(self._var(name, "int"), "L", group)

    def fresh(self, prefix="a"):
        """A fresh unconstrained label with a deterministic name."""
        k = self.seq.get(prefix, 0)
        self.seq[prefix] = k + 1
        return self.label(f"{prefix}{k}")

    def distinct(self, syms):
        syms = [s for s in syms if isinstance(s, SymInt)]
        if len(syms) > 1:
            self.solver.add(z3.Distinct(*[s.e for s in syms]))
            self.model = None

    def const(self, v):
        return SymInt.const(v, "L")

    def int(self, name, lo=None, hi=None, kind="N", group=None):
        v = self._var(name, "int")
        if lo is not None:
            self.solver.add(v >= lo)
        if hi is not None:
            self.solver.add(v <= hi)
        self.model = None
        return SymInt(v, kind, group)

    def bool(self, name):
        return SymBool(self._var(name, "bool"))

    def flag(self, name):
        """A symbolic boolean forked immediately (returns a python bool)."""
        return bool(self.bool(name))

    def real(self, name, lo=None, hi=None, lo_strict=False, hi_strict=False):
        v = self._var(name, "real")
        if lo is not None:
            self.solver.add(v > lo if lo_strict else v >= lo)
        if hi is not None:
            self.solver.add(v < hi if hi_strict else v <= hi)
        self.model = None
        return SymReal(v)

    def choose(self, name, k):
        """A symbolic choice in range(k), forked immediately (returns a python int)."""
        if k <= 1:
            return 0
        return self.concretize(self.int(name, 0, k - 1).e)

    def counter(self, start):
        from . import stubs

        return stubs.scount(start)

    # -- assumptions / assertions
    def assume(self, *conds):
        sym = False
        for cond in conds:
            if isinstance(cond, SymBool):
                self.solver.add(cond.term())
                sym = True
            elif not cond:
                raise PathAbort()
        if sym:
            self.model = None
            if self.check() != z3.sat:
                raise PathAbort()
            self.model = self.solver.model()

    def require(self, cond, clause, detail=None):
        """Assert cond on this path; a feasible falsification is a violation."""
        if isinstance(cond, SymBool):
            t = cond.term()
            if self.check(z3.Not(t)) == z3.sat:
                v = Violation(clause, detail, self.model_dict())
                v.alternatives = self._more_models(z3.Not(t), v.model)
                self.violations.append(v)
                # the path continues under cond so later clauses are meaningful
            self.solver.add(t)
            self.model = None
            if self.check() != z3.sat:
                raise PathAbort()
        elif not cond:
            if self.check() != z3.sat:
                raise SymxEngineError("infeasible path reached a failing assertion")
            v = Violation(clause, detail, self.model_dict())
            v.alternatives = self._more_models(None, v.model)
            self.violations.append(v)

    def _more_models(self, extra, first, k=6):
        """Further models of the violating path (a replay can fail for reasons the
        symbolic run cannot see, e.g. real hash order): block the integer values of
        the previous models and ask again."""
        out = []
        ints = [(n, v) for n, (v, sort) in self.vars.items() if sort == "int"]
        if not ints:
            return out
        self.solver.push()
        try:
            if extra is not None:
                self.solver.add(extra)
            cur = first
            for _ in range(k):
                self.solver.add(z3.Or(*[v != cur[n] for n, v in ints]))
                if self.solver.check() != z3.sat:
                    break
                cur = self.model_dict()
                out.append(cur)
        finally:
            self.solver.pop()
        self.model = None
        return out

    def model_dict(self):
        m = self.solver.model()  # callers have just had a sat answer
        out = {}
        for name, (v, sort) in self.vars.items():
            val = m.eval(v, model_completion=True)
            if sort == "int":
                out[name] = val.as_long()
            elif sort == "bool":
                out[name] = z3.is_true(val)
            else:
                fr = val.as_fraction() if hasattr(val, "as_fraction") else Fraction(str(val))
                out[name] = [fr.numerator, fr.denominator]
        return out

    def register_pickle(self, s):
        self.pickled.append(s)
        return len(self.pickled) - 1

    def hit(self, stub):
        self.stub_hits[stub] = self.stub_hits.get(stub, 0) + 1


class ConcreteCtx:
    """Replays a solver model on the unmodified library: every variable is a
    plain python value taken from the model."""

    symbolic = False

    def __init__(self, model):
        self.model = model
        self.violations = []
        self.info = {}
        self.stub_hits = {}
        self.seen = set()
        self.seq = {}
        self.reuse = False

    def fresh(self, prefix="a"):
        k = self.seq.get(prefix, 0)
        self.seq[prefix] = k + 1
        return self.label(f"{prefix}{k}")

    def _get(self, name, default):
        self.seen.add(name)
        return self.model.get(name, default)

    def label(self, name, group=None):
        return int(self._get(name, 0))

    def distinct(self, syms):
        pass

    def const(self, v):
        return int(v)

    def int(self, name, lo=None, hi=None, kind="N", group=None):
        v = int(self._get(name, lo if lo is not None else 0))
        return v

    def bool(self, name):
        return bool(self._get(name, False))

    flag = bool

    def real(self, name, lo=None, hi=None, lo_strict=False, hi_strict=False):
        v = self._get(name, None)
        if v is None:
            return float(lo if lo is not None else 0.0)
        return Fraction(v[0], v[1])

    def choose(self, name, k):
        if k <= 1:
            return 0
        return int(self._get(name, 0))

    def counter(self, start):
        import itertools

        return itertools.count(int(start))

    def assume(self, *conds):
        for cond in conds:
            if not cond:
                raise PathAbort()

    def require(self, cond, clause, detail=None):
        if not cond:
            self.violations.append(Violation(clause, detail, self.model))

    def hit(self, stub):
        pass


# ---------------------------------------------------------------------------
# exploration
# ---------------------------------------------------------------------------


class Stats:
    def __init__(self):
        self.paths = 0
        self.aborted = 0
        self.queries = 0
        self.solver_s = 0.0
        self.wall_s = 0.0
        self.inconclusive = []
        self.unsupported = []
        self.concretizations = 0
        self.stub_hits = {}
        self.capped = False


class _PathTimeout(BaseException):
    pass


def _on_alarm(signum, frame):
    raise _PathTimeout()


VIOLATION_STOP = 300


def explore(harness, max_paths=10**9, max_wall=10**9, on_path=None, path_timeout=120):
    """Run harness(ctx) over every feasible path.  Returns (stats, violations) where
    violations is a list of (Violation, info) for the path they occurred on."""
    global CTX
    st = Stats()
    out = []
    stack = [[]]
    t0 = time.perf_counter()
    while stack:
        if st.paths >= max_paths or time.perf_counter() - t0 > max_wall:
            st.capped = True
            break
        prefix = stack.pop()
        ctx = SymCtx(prefix)
        CTX = ctx
        ok = True
        try:
            # a change under test may make library code loop forever: bound each path
            try:
                signal.signal(signal.SIGALRM, _on_alarm)
                signal.setitimer(signal.ITIMER_REAL, path_timeout)
                armed = True
            except (ValueError, AttributeError):
                armed = False
            try:
                harness(ctx)
            finally:
                if armed:
                    signal.setitimer(signal.ITIMER_REAL, 0)
        except _PathTimeout:
            st.inconclusive.append(f"a single path ran longer than {path_timeout}s")
            ok = False
        except PathAbort:
            st.aborted += 1
        except SymxInconclusive as e:
            st.inconclusive.append(str(e))
            ok = False
        except SymxUnsupported as e:
            st.unsupported.append(str(e))
            ok = False
        finally:
            CTX = None
        try:
            if ok and ctx.solver.check() != z3.sat:
                raise SymxEngineError("path ended infeasible")
            if on_path is not None:
                on_path(ctx)
        finally:
            ctx.solver.pop()
        st.paths += 1
        st.queries += ctx.nq
        st.solver_s += ctx.tsolve
        st.concretizations += ctx.concretizations
        for k, v in ctx.stub_hits.items():
            st.stub_hits[k] = st.stub_hits.get(k, 0) + v
        for v in ctx.violations:
            out.append((v, dict(ctx.info)))
        if len(out) >= VIOLATION_STOP:
            # enough counterexamples for this unit: stop exploring it (the unit is red either
            # way - a replay-confirmed violation, or inconclusive if none replays)
            st.stopped_after_violations = True
            break
        tr = ctx.trace
        for i in range(len(prefix), len(tr)):
            ent = tr[i]
            if ent[0] == "b" and ent[2] == "open":
                stack.append(tr[:i] + [("b", not ent[1], "open", ent[3])])
    st.wall_s = time.perf_counter() - t0
    return st, out


def run_concrete(harness, model):
    """Replay: run the same harness with plain python values."""
    global CTX
    saved = CTX
    CTX = None
    ctx = ConcreteCtx(model)
    try:
        harness(ctx)
    except PathAbort:
        return ctx, "aborted"
    finally:
        CTX = saved
    return ctx, "ran"
