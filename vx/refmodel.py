"""Executable specification of the mutators of Hypergraph and DiHypergraph: a
direct transcription of their docstrings over plain dict/set (DESIGN 5/C05).

The reference classes expose the same method names and signatures as the real
classes, so the op alphabet of vx.ops drives both.  They are ordinary Python and
run on symbolic labels as well as on ints.  Where docstring and implementation
disagree AND the library relies on its own behaviour, the model follows the
implementation and the case is listed in AMBIGUOUS (no alarm is raised on a point
the property does not enumerate)."""
import warnings
from copy import deepcopy

from .nets import intlike

AMBIGUOUS = [
    "add_edge([]) creates an empty edge (docstring: raises XGIError; from_hif_dict and dual depend on empty edges)",
    "add_edges_from stores empty edges in every format (docstring: empty edges are skipped; add_edge, from_hif_dict and dual rely on empty edges)",
    "node creation order inside one edge follows set(members) iteration, which the model reproduces by the same construction",
    "merge_duplicate_edges: duplicate classes are processed in order of first occurrence; merged edges are appended after the surviving ones",
    "set_*_attributes(values=scalar) with name=None raises XGIError; dict keyed by unknown ids warns and skips",
    "string/tuple ids never move the id counter",
]


class RefError(Exception):
    """The documented library error (XGIError or IDNotFound in the real library)."""


class Unspecified(Exception):
    """The documentation does not determine the outcome; the comparison is skipped."""


def _bump(model, idx):
    if intlike(idx) and not isinstance(idx, bool):
        if model.counter <= idx:
            model.counter = idx + 1


class RefH:
    """Undirected hypergraph."""

    directed = False

    def __init__(self):
        self.nodes = {}  # node -> attr dict (insertion ordered)
        self.edges = {}  # edge -> (members set, attr dict)
        self.net_attr = {}
        self.counter = 0

    @classmethod
    def of(cls, snap, counter):
        m = cls()
        for n in snap["nodes"]:
            m.nodes[n] = deepcopy(snap["node_attr"][n])
        for e in snap["edges"]:
            m.edges[e] = (set(snap["members"][e]), deepcopy(snap["edge_attr"][e]))
        m.net_attr = deepcopy(snap["net_attr"])
        m.counter = counter
        return m

    def snap(self):
        memberships = {n: set() for n in self.nodes}
        for e, (mem, _) in self.edges.items():
            for n in mem:
                memberships[n].add(e)
        return {
            "nodes": list(self.nodes),
            "edges": list(self.edges),
            "node_attr": {n: dict(a) for n, a in self.nodes.items()},
            "edge_attr": {e: dict(a) for e, (_, a) in self.edges.items()},
            "net_attr": dict(self.net_attr),
            "members": {e: set(m) for e, (m, _) in self.edges.items()},
            "memberships": memberships,
            "counter": self.counter,
        }

    # -- nodes
    def _new_node(self, n):
        if n is None:
            raise RefError("None cannot be a node")
        if n not in self.nodes:
            self.nodes[n] = {}

    def add_node(self, node, **attr):
        self._new_node(node)
        self.nodes[node].update(attr)

    def add_nodes_from(self, nodes_for_adding, **attr):
        for n in nodes_for_adding:
            if isinstance(n, tuple) and len(n) == 2 and isinstance(n[1], dict):
                n, nd = n
                d = dict(attr)
                d.update(nd)  # per-node attributes take precedence over keyword attributes
            else:
                d = attr
            self._new_node(n)
            self.nodes[n].update(d)

    def remove_node(self, n, strong=False, remove_empty=True):
        if n not in self.nodes:
            raise RefError("node not in the hypergraph")
        del self.nodes[n]
        for e in [e for e, (mem, _) in self.edges.items() if n in mem]:
            if strong:
                del self.edges[e]
            else:
                self.edges[e][0].remove(n)
                if not self.edges[e][0] and remove_empty:
                    del self.edges[e]

    def remove_nodes_from(self, nodes, strong=False, remove_empty=True):
        for n in nodes:
            if n is None or n not in self.nodes:
                warnings.warn("node not in hypergraph")
                continue
            self.remove_node(n, strong=strong, remove_empty=remove_empty)

    def set_node_attributes(self, values, name=None):
        if name is not None:
            if isinstance(values, dict):
                for n, v in values.items():
                    if n in self.nodes:
                        self.nodes[n][name] = v
                    else:
                        warnings.warn("node does not exist")
            else:
                for n in self.nodes:
                    self.nodes[n][name] = values
        else:
            if not isinstance(values, dict):
                raise RefError("must pass a dictionary of dictionaries")
            for n, d in values.items():
                if n in self.nodes:
                    self.nodes[n].update(d)
                else:
                    warnings.warn("node does not exist")

    # -- edges
    def _store(self, idx, members, attr):
        """members: the caller's collection; creates missing nodes in set order."""
        mset = set(members)
        if None in mset:
            raise RefError("None cannot be a node")
        if idx is None:
            raise RefError("None cannot be an edge")
        for n in (mset if isinstance(members, set) else members):
            self._new_node(n)
        self.edges[idx] = (mset, dict(attr))

    def add_edge(self, members, idx=None, **attr):
        members = set(members)
        if None in members:
            raise RefError("None cannot be a node")
        if idx is not None and idx in self.edges:
            warnings.warn("uid already exists")
            return
        if idx is None:
            uid = self.counter
            self.counter += 1
        else:
            uid = idx
        self._store(uid, members, attr)
        if idx is not None:
            _bump(self, idx)

    def add_edges_from(self, ebunch_to_add, **attr):
        if isinstance(ebunch_to_add, dict):
            for idx, members in ebunch_to_add.items():
                if idx in self.edges:
                    warnings.warn("uid already exists")
                    continue
                self._store(idx, members, {})
                _bump(self, idx)
            return
        eb = list(ebunch_to_add)
        if not eb:
            return
        first = eb[0]
        if isinstance(first, (list, set, frozenset)) or (isinstance(first, tuple) and not (len(first) in (2, 3) and isinstance(first[0], (list, set, tuple, frozenset)))):
            fmt = 1
        elif len(first) == 3:
            fmt = 4
        elif isinstance(first[1], dict):
            fmt = 3
        else:
            fmt = 2
        for e in eb:
            if fmt == 1:
                members, idx, eattr, auto = e, None, {}, True
            elif fmt == 2:
                members, idx, eattr, auto = e[0], e[1], {}, False
            elif fmt == 3:
                members, idx, eattr, auto = e[0], None, e[1], True
            else:
                members, idx, eattr, auto = e[0], e[1], e[2], False
            if auto:
                idx = self.counter
                self.counter += 1
            if idx in self.edges:
                warnings.warn("uid already exists")
                continue
            d = dict(attr)
            d.update(eattr)  # per-edge attributes take precedence over keyword attributes
            self._store(idx, members, d)
            if not auto:
                _bump(self, idx)

    def add_weighted_edges_from(self, ebunch, weight="weight", **attr):
        self.add_edges_from([(list(e[:-1]), {weight: e[-1]}) for e in ebunch], **attr)

    def add_node_to_edge(self, edge, node):
        if edge is None:
            raise RefError("None cannot be an edge")
        if edge not in self.edges:
            self.edges[edge] = (set(), {})
            _bump(self, edge)
        self._new_node(node)
        self.edges[edge][0].add(node)

    def remove_edge(self, idx):
        if idx not in self.edges:
            raise RefError("edge not found")
        del self.edges[idx]

    def remove_edges_from(self, ebunch):
        for idx in ebunch:
            self.remove_edge(idx)

    def remove_node_from_edge(self, edge, node, remove_empty=True):
        if edge not in self.edges:
            raise RefError("edge not in the hypergraph")
        if node not in self.nodes:
            raise RefError("node not in the hypergraph")
        if node not in self.edges[edge][0]:
            raise RefError("edge does not contain node")
        self.edges[edge][0].remove(node)
        if not self.edges[edge][0] and remove_empty:
            del self.edges[edge]

    def set_edge_attributes(self, values, name=None):
        if name is not None:
            if isinstance(values, dict):
                for e, v in values.items():
                    if e in self.edges:
                        self.edges[e][1][name] = v
                    else:
                        warnings.warn("edge does not exist")
            else:
                for e in self.edges:
                    self.edges[e][1][name] = values
        else:
            if not isinstance(values, dict):
                raise RefError("dict of dicts required")
            for e, d in values.items():
                if e in self.edges:
                    self.edges[e][1].update(d)
                else:
                    warnings.warn("edge does not exist")

    def update(self, *, edges=None, nodes=None):
        if nodes:
            self.add_nodes_from(nodes)
        if edges:
            self.add_edges_from(edges)

    def clear(self, remove_net_attr=True):
        self.nodes.clear()
        self.edges.clear()
        if remove_net_attr:
            self.net_attr.clear()

    def clear_edges(self):
        self.edges.clear()

    def merge_duplicate_edges(self, rename="first", merge_rule="first", multiplicity=None):
        if rename not in ("first", "tuple", "new"):
            raise RefError("invalid rename")
        if merge_rule not in ("first", "union", "intersection"):
            raise RefError("invalid merge rule")
        classes = []
        for e, (mem, _) in self.edges.items():
            for c in classes:
                if _same_set(self.edges[c[0]][0], mem):
                    c.append(e)
                    break
            else:
                classes.append([e])
        new = []
        for c in classes:
            if len(c) < 2:
                continue
            ids = sorted(c)
            if rename == "first":
                nid = ids[0]
            elif rename == "tuple":
                nid = tuple(ids)
            else:
                nid = self.counter
                self.counter += 1
            if merge_rule == "first":
                a = deepcopy(self.edges[ids[0]][1])
            else:
                fields = []
                for e in c:
                    for f in self.edges[e][1]:
                        if f not in fields:
                            fields.append(f)
                a = {}
                for f in fields:
                    vals = []
                    for e in c:
                        v = self.edges[e][1].get(f)
                        if not any(_eqv(v, w) for w in vals):
                            vals.append(v)
                    if merge_rule == "union":
                        a[f] = set(vals)
                    else:
                        a[f] = vals[0] if len(vals) == 1 else None
            if multiplicity is not None:
                a[multiplicity] = len(c)
            new.append((set(self.edges[c[0]][0]), nid, a))
        for c in classes:
            if len(c) > 1:
                for e in c:
                    del self.edges[e]
        for mem, nid, a in new:
            if nid in self.edges:
                warnings.warn("uid already exists")
                continue
            self.edges[nid] = (mem, a)
            _bump(self, nid)
        if merge_rule == "union":
            warnings.warn("cannot draw by merged attributes")


def _same_set(a, b):
    if len(a) != len(b):
        return False
    for x in a:
        if x not in b:
            return False
    return True


def _eqv(a, b):
    if a is None or b is None:
        return a is b
    return bool(a == b)


class RefD:
    """Directed hypergraph: edges -> (tail set, head set, attr)."""

    directed = True

    def __init__(self):
        self.nodes = {}
        self.edges = {}
        self.net_attr = {}
        self.counter = 0

    @classmethod
    def of(cls, snap, counter):
        m = cls()
        for n in snap["nodes"]:
            m.nodes[n] = deepcopy(snap["node_attr"][n])
        for e in snap["edges"]:
            t, h = snap["members"][e]
            m.edges[e] = (set(t), set(h), deepcopy(snap["edge_attr"][e]))
        m.net_attr = deepcopy(snap["net_attr"])
        m.counter = counter
        return m

    def snap(self):
        ms = {n: (set(), set()) for n in self.nodes}
        for e, (t, h, _) in self.edges.items():
            for n in t:
                ms[n][1].add(e)
            for n in h:
                ms[n][0].add(e)
        return {
            "nodes": list(self.nodes),
            "edges": list(self.edges),
            "node_attr": {n: dict(a) for n, a in self.nodes.items()},
            "edge_attr": {e: dict(a) for e, (_, _, a) in self.edges.items()},
            "net_attr": dict(self.net_attr),
            "members": {e: (set(t), set(h)) for e, (t, h, _) in self.edges.items()},
            "memberships": ms,
            "counter": self.counter,
        }

    _new_node = RefH._new_node
    add_node = RefH.add_node
    add_nodes_from = RefH.add_nodes_from
    set_node_attributes = RefH.set_node_attributes
    remove_nodes_from = RefH.remove_nodes_from
    clear = RefH.clear

    def remove_node(self, n, strong=False, remove_empty=True):
        if n not in self.nodes:
            raise RefError("node not in the dihypergraph")
        del self.nodes[n]
        for e in [e for e, (t, h, _) in self.edges.items() if n in t or n in h]:
            if strong:
                del self.edges[e]
            else:
                t, h, _ = self.edges[e]
                t.discard(n)
                h.discard(n)
                if not t and not h and remove_empty:
                    del self.edges[e]

    def _store(self, idx, members, attr):
        if not isinstance(members, (tuple, list)):
            raise RefError("directed edge must be a list or tuple")
        tail, head = list(members[0]), list(members[1])
        if None in tail or None in head:
            raise RefError("None cannot be a node")
        if idx is None:
            raise RefError("None cannot be an edge")
        for n in tail:
            self._new_node(n)
        for n in head:
            self._new_node(n)
        self.edges[idx] = (set(tail), set(head), dict(attr))

    def add_edge(self, members, idx=None, **attr):
        if not isinstance(members, (tuple, list)):
            raise RefError("directed edge must be a list or tuple")
        if None in list(members[0]) or None in list(members[1]):
            raise RefError("None cannot be a node")
        auto = idx is None
        if auto:  # the real class draws the automatic id before the duplicate check
            idx = self.counter
            self.counter += 1
        elif idx in self.edges:
            warnings.warn("uid already exists")
            return
        self._store(idx, members, attr)
        if not auto:
            _bump(self, idx)

    def add_edges_from(self, ebunch_to_add, **attr):
        if isinstance(ebunch_to_add, dict):
            for idx, members in ebunch_to_add.items():
                if idx in self.edges:
                    warnings.warn("uid already exists")
                    continue
                self._store(idx, members, {})
                _bump(self, idx)
            return
        eb = list(ebunch_to_add)
        if not eb:
            return
        first = eb[0]
        second = list(first)[1]
        if isinstance(second, (list, set, tuple, frozenset)):
            fmt = 1
        elif len(first) == 3:
            fmt = 4
        elif isinstance(second, dict):
            fmt = 3
        else:
            fmt = 2
        for e in eb:
            if fmt == 1:
                members, idx, eattr, auto = e, None, {}, True
            elif fmt == 2:
                members, idx, eattr, auto = e[0], e[1], {}, False
            elif fmt == 3:
                members, idx, eattr, auto = e[0], None, e[1], True
            else:
                members, idx, eattr, auto = e[0], e[1], e[2], False
            if auto:
                idx = self.counter
                self.counter += 1
            if idx in self.edges:
                warnings.warn("uid already exists")
                continue
            d = dict(attr)
            d.update(eattr)
            self._store(idx, members, d)
            if not auto:
                _bump(self, idx)

    def add_node_to_edge(self, edge, node, direction):
        if direction not in ("in", "out"):
            raise RefError("invalid direction")
        if edge is None:
            raise RefError("None cannot be an edge")
        if edge not in self.edges:
            self.edges[edge] = (set(), set(), {})
            _bump(self, edge)
        self._new_node(node)
        self.edges[edge][0 if direction == "in" else 1].add(node)

    def remove_node_from_edge(self, edge, node, direction, remove_empty=True):
        if direction not in ("in", "out"):
            raise RefError("invalid direction")
        if edge not in self.edges:
            raise RefError("edge not in the hypergraph")
        if node not in self.nodes:
            raise RefError("node not in the hypergraph")
        side = self.edges[edge][0 if direction == "in" else 1]
        if node not in side:
            raise RefError("edge side does not contain node")
        side.remove(node)
        t, h, _ = self.edges[edge]
        if not t and not h and remove_empty:
            del self.edges[edge]

    def remove_edge(self, idx):
        if idx not in self.edges:
            raise RefError("edge not found")
        del self.edges[idx]

    def remove_edges_from(self, ebunch):
        for idx in ebunch:
            self.remove_edge(idx)

    def set_edge_attributes(self, values, name=None):
        if name is not None:
            if isinstance(values, dict):
                for e, v in values.items():
                    if e in self.edges:
                        self.edges[e][2][name] = v
                    else:
                        warnings.warn("edge does not exist")
            else:
                for e in self.edges:
                    self.edges[e][2][name] = values
        else:
            if not isinstance(values, dict):
                raise RefError("dict of dicts required")
            for e, d in values.items():
                if e in self.edges:
                    self.edges[e][2].update(d)
                else:
                    warnings.warn("edge does not exist")
