import argparse
import importlib
import json
import os
import sys

ROOT = os.path.dirname(os.path.dirname(os.path.abspath(__file__)))


def load_all():
    import pkgutil

    import vx.props as pp

    for m in pkgutil.iter_modules(pp.__path__):
        importlib.import_module(f"vx.props.{m.name}")


def main():
    ap = argparse.ArgumentParser()
    ap.add_argument("prop", nargs="?")
    ap.add_argument("--tier", default=os.environ.get("VERIF_TIER", "quick"))
    ap.add_argument("--replay")
    ap.add_argument("--jobs", type=int)
    ap.add_argument("--only", help="substring filter on unit params (debug)")
    a = ap.parse_args()
    seed = int(os.environ.get("VERIF_SEED", "0") or 0)
    from vx import runner

    if a.replay:
        load_all()
        rec = json.load(open(a.replay))
        if rec.get("replay_py"):
            ns = {}
            exec(rec["replay_py"], ns)
            ok = ns["replay"]()
            print("REPRODUCED" if ok else "not reproduced", rec.get("clause"))
            sys.exit(1 if ok else 0)
        ok, info, clauses = runner.replay_record(rec)
        print(("REPRODUCED " if ok else "not reproduced ") + rec["clause"])
        print("args:", json.dumps(info.get("args"), default=str), "clauses seen:", clauses)
        sys.exit(1 if ok else 0)
    mod = importlib.import_module(f"vx.props.{a.prop.lower()}")
    if hasattr(mod, "main"):
        sys.exit(mod.main(a.tier, seed))
    spec = mod.spec(a.tier, seed)
    if a.only:
        spec["units"] = [u for u in spec["units"] if a.only in json.dumps(u, default=str)]
    sys.exit(runner.run_property(a.prop.upper(), spec, a.tier, seed, a.jobs))


if __name__ == "__main__":
    main()
