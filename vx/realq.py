"""Queries over the reals on concrete matrices returned by the library (no path
condition is involved, so they run on their own nlsat solver).

psd_counterexample(L): decides 'for every real vector x: x^T L x >= -eps' for a
symmetric matrix with float/int entries.  The form is homogeneous, so a negative
direction can be scaled to max|x_i| = 1 with x_k = 1 for some k: n queries with
x_k = 1, -1 <= x_i <= 1, entries taken as rationals (limit_denominator 1e9).
unsat for every k -> no vector with x^T L x < -eps in the unit box (smallest
eigenvalue >= -eps).  sat -> the vector, which the caller re-evaluates with numpy
before anything is reported.  unknown/timeouts are inconclusive, never a pass."""
import time
from fractions import Fraction

import z3

from .symx import SymxInconclusive, _ctx

EPS = Fraction(1, 10**6)
STATS = {"queries": 0, "seconds": 0.0}


def psd_counterexample(L, eps=EPS, timeout_ms=30000):
    n = L.shape[0]
    if n == 0:
        return None
    R = [[Fraction(float(L[i][j])).limit_denominator(10**9) for j in range(n)] for i in range(n)]
    x = [z3.Real(f"x{i}") for i in range(n)]
    form = z3.Sum([z3.RealVal(R[i][j]) * x[i] * x[j] for i in range(n) for j in range(n) if R[i][j] != 0] + [z3.RealVal(0)])
    ctx = None
    try:
        ctx = _ctx()
    except BaseException:
        pass
    for k in range(n):
        s = z3.SolverFor("QF_NRA")
        s.set("timeout", timeout_ms)
        s.add(x[k] == 1)
        for i in range(n):
            s.add(x[i] >= -1, x[i] <= 1)
        s.add(form < -z3.RealVal(eps))
        t = time.perf_counter()
        r = s.check()
        dt = time.perf_counter() - t
        STATS["queries"] += 1
        STATS["seconds"] += dt
        if ctx is not None and hasattr(ctx, "nq"):
            ctx.nq += 1
            ctx.tsolve += dt
        if r == z3.sat:
            m = s.model()
            out = []
            for i in range(n):
                v = m.eval(x[i], model_completion=True)
                try:
                    out.append(float(v.as_fraction()))
                except Exception:
                    out.append(float(v.approx(12).as_fraction()))
            return out
        if r != z3.unsat:
            raise SymxInconclusive("real-arithmetic query returned unknown")
    return None


def require_psd(ctx, L, what):
    import numpy as np

    L = np.asarray(L, dtype=float)
    if L.shape[0] == 0:
        return
    ctx.require(bool(np.allclose(L, L.T)), f"{what} is not symmetric")
    x = psd_counterexample(L)
    bad = False
    if x is not None:
        v = np.array(x)
        bad = float(v @ L @ v) < -float(EPS) / 2  # the model re-evaluated in floating point on the returned matrix
        if not bad:
            raise SymxInconclusive("a real-arithmetic model did not re-evaluate")
    ctx.require(not bad, f"{what} is not positive semidefinite (a vector x with x^T L x < 0 exists)", detail={"x": x} if x else None)
