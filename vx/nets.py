"""Pre-state builders, invariants and snapshots for the three network classes.

Pre-states are constructed directly in the six tables ("drive the unit"): node
labels n_i, edge ids e_j and the id counter c are solver variables; only the
incidence shape is concrete.  All functions here are ordinary Python that runs
identically on proxies (symbolic exploration) and on ints (concrete replay)."""
import warnings

import xgi
from xgi.utils.utilities import IDDict

from . import stubs, symx
from .symx import SymInt


# ---------------------------------------------------------------------------
# builders
# ---------------------------------------------------------------------------
def _labels(ctx, shape, str_labels=False, tag=""):
    N, M, _ = shape
    nl = [ctx.label(f"{tag}n{i}", group=f"{tag}n") for i in range(N)]
    el = [ctx.label(f"{tag}e{j}", group=f"{tag}e") for j in range(M)]
    ctx.distinct(nl)
    ctx.distinct(el)
    if str_labels == "idtuple":
        # the last edge's id is the tuple of the (ordered) first two ids: the id
        # merge_duplicate_edges(rename="tuple") would give their merge
        if M >= 3:
            ctx.assume(el[0] < el[1])
            el[M - 1] = (el[0], el[1])
    elif str_labels == "tuple":
        # tuple labels (admissible ids: update_uid_counter names them, rename="tuple" makes them)
        if nl:
            nl[0] = (f"{tag}tn", 0)
        if el:
            el[0] = (0, 1)
        if len(el) > 1:
            el[1] = f"{tag}edge-s"
    elif str_labels:
        if nl:
            nl[0] = f"{tag}node-s"
        if el:
            el[0] = f"{tag}edge-s"
    return nl, el


def _counter(ctx, el, fresh=True, tag=""):
    c = ctx.label(f"{tag}c")
    conds = [c >= 0]
    if fresh:
        conds += [c > e for e in el if not isinstance(e, (str, tuple))]
    ctx.assume(*conds)
    return c


def intlike(x):
    return isinstance(x, (int, SymInt)) and not isinstance(x, bool)


class twin:
    """with twin(ctx): statements re-draw the SAME variables (by name) as the
    statements that ran since the matching mark: used to run one call on two
    equal networks with identical symbolic arguments."""

    def __init__(self, ctx, seq_mark):
        self.ctx = ctx
        self.mark = seq_mark

    def __enter__(self):
        self.saved = (dict(self.ctx.seq), self.ctx.reuse)
        self.ctx.seq = dict(self.mark)
        self.ctx.reuse = True
        return self

    def __exit__(self, *a):
        self.ctx.seq, self.ctx.reuse = self.saved
        return False


def build_H(ctx, shape, cls=None, fresh=True, attrs=False, str_labels=False, tag="", order=None):
    """An arbitrary Hypergraph (or SimplicialComplex) state of the given shape.
    attrs: give nodes/edges/network symbolic attribute values."""
    cls = cls or xgi.Hypergraph
    N, M, edges = shape
    nl, el = _labels(ctx, shape, str_labels, tag)
    c = _counter(ctx, el, fresh, tag)
    H = cls()
    frozen = cls is xgi.SimplicialComplex
    node_order = list(range(N)) if order is None else order[0]
    edge_order = list(range(M)) if order is None else order[1]
    for i in node_order:
        H._node[nl[i]] = set()
        H._node_attr[nl[i]] = IDDict()
        if attrs:
            H._node_attr[nl[i]]["k"] = ctx.label(f"{tag}nv{i}")
    for j in edge_order:
        mem = [nl[i] for i in edges[j]]
        H._edge[el[j]] = frozenset(mem) if frozen else set(mem)
        H._edge_attr[el[j]] = IDDict()
        if attrs:
            H._edge_attr[el[j]]["k"] = ctx.label(f"{tag}ev{j}")
        for n in mem:
            H._node[n].add(el[j])
    if attrs:
        H._net_attr["k"] = ctx.label(f"{tag}gv")
    H._edge_uid = ctx.counter(c)
    return H, nl, el, c


def build_H_warm(ctx, shape, warm, **kw):
    """The same Hypergraph state as build_H, reached through a history: the object
    first has the COMPLEMENTARY incidence (same nodes, same edge ids), `warm(H)` runs
    the read-only functions under test on it once, and the incidence is then morphed
    into `shape` through the public API (node and edge counts never change).  A
    result cached per object / per size from the first call is thereby exposed."""
    import warnings

    N, M, edges = shape
    s0 = (N, M, tuple(tuple(sorted(set(range(N)) - set(e))) for e in edges))
    H, nl, el, c = build_H(ctx, s0, **kw)
    with warnings.catch_warnings():
        warnings.simplefilter("ignore")
        try:
            warm(H)
        except Exception:
            pass
        for j in range(M):
            for i in range(N):
                want, have = i in edges[j], i in s0[2][j]
                if want and not have:
                    H.add_node_to_edge(el[j], nl[i])
                elif have and not want:
                    H.remove_node_from_edge(el[j], nl[i], remove_empty=False)
    return H, nl, el, c


def build_D(ctx, shape, fresh=True, attrs=False, str_labels=False, tag=""):
    N, M, edges = shape
    nl, el = _labels(ctx, shape, str_labels, tag)
    c = _counter(ctx, el, fresh, tag)
    D = xgi.DiHypergraph()
    for i in range(N):
        D._node[nl[i]] = {"in": set(), "out": set()}
        D._node_attr[nl[i]] = IDDict()
        if attrs:
            D._node_attr[nl[i]]["k"] = ctx.label(f"{tag}nv{i}")
    for j in range(M):
        tail, head = edges[j]
        D._edge[el[j]] = {"in": set(nl[i] for i in tail), "out": set(nl[i] for i in head)}
        D._edge_attr[el[j]] = IDDict()
        if attrs:
            D._edge_attr[el[j]]["k"] = ctx.label(f"{tag}ev{j}")
        for i in tail:
            D._node[nl[i]]["out"].add(el[j])
        for i in head:
            D._node[nl[i]]["in"].add(el[j])
    if attrs:
        D._net_attr["k"] = ctx.label(f"{tag}gv")
    D._edge_uid = ctx.counter(c)
    return D, nl, el, c


# ---------------------------------------------------------------------------
# table hygiene (label discipline, DESIGN 3.4)
# ---------------------------------------------------------------------------
def _kinds(keys):
    raw = sym = False
    for k in keys:
        if isinstance(k, SymInt):
            sym = True
        elif isinstance(k, int) and not isinstance(k, bool):
            raw = True
    return raw, sym


def check_tables(net):
    """A table that mixes raw ints with label-kind SymInts can silently fail to
    compare them (different hash) - that is an engine error, never a pass."""
    for name in ("_node", "_edge"):
        t = getattr(net, name)
        raw, sym = _kinds(t.keys())
        for v in t.values():
            if isinstance(v, dict):
                for s in v.values():
                    r2, s2 = _kinds(s)
                    raw, sym = raw or r2, sym or s2
            else:
                r2, s2 = _kinds(v)
                raw, sym = raw or r2, sym or s2
        if raw and sym:
            raise symx.SymxEngineError(f"table {name} mixes raw ints and symbolic labels")


def _enc(x):
    if isinstance(x, int) and not isinstance(x, bool):
        return SymInt.const(x, "L")
    return x


def reencode(net):
    """Re-encode tables that are entirely raw ints (e.g. after relabelling with
    range()) as label constants so that later symbolic ids meet them correctly."""
    if symx.CTX is None:
        return net
    directed = isinstance(net, xgi.DiHypergraph)
    node, nattr, edge, eattr = net._node, net._node_attr, net._edge, net._edge_attr
    net._node = IDDict()
    net._node_attr = IDDict()
    net._edge = IDDict()
    net._edge_attr = IDDict()
    for n, ms in node.items():
        if directed:
            net._node[_enc(n)] = {k: set(_enc(e) for e in v) for k, v in ms.items()}
        else:
            net._node[_enc(n)] = set(_enc(e) for e in ms)
    for n, a in nattr.items():
        net._node_attr[_enc(n)] = a
    for e, mem in edge.items():
        if directed:
            net._edge[_enc(e)] = {k: set(_enc(n) for n in v) for k, v in mem.items()}
        else:
            net._edge[_enc(e)] = type(mem)(_enc(n) for n in mem)
    for e, a in eattr.items():
        net._edge_attr[_enc(e)] = a
    # views hold references to the old dicts: recreate them (not via __getstate__,
    # which is itself code under test)
    net._nodeview = type(net._nodeview)(net)
    net._edgeview = type(net._edgeview)(net)
    return net


# ---------------------------------------------------------------------------
# invariants (return a list of violated clause names; empty = holds)
# ---------------------------------------------------------------------------
def _keys_match(a, b):
    if len(a) != len(b):
        return False
    for k in a:
        if k not in b:
            return False
    return True


def inv_H(H):
    bad = []
    node, edge = H._node, H._edge
    for e, mem in edge.items():
        for n in mem:
            if n not in node:
                bad.append("member is not a node")
            elif e not in node[n]:
                bad.append("member lacks the membership")
    for n, ms in node.items():
        for e in ms:
            if e not in edge:
                bad.append("membership is not an edge")
            elif n not in edge[e]:
                bad.append("membership lacks the member")
    if not _keys_match(node, H._node_attr):
        bad.append("node attribute records do not match nodes")
    if not _keys_match(edge, H._edge_attr):
        bad.append("edge attribute records do not match edges")
    for k in list(node) + list(edge):
        if k is None:
            bad.append("None is an id")
    bad += _aliasing(H)
    return bad


def _aliasing(net):
    """Representation invariant needed for the step to be inductive: the
    mutable containers of the tables are pairwise distinct objects (a shared
    membership set makes a later edit appear at several nodes at once)."""
    seen = set()
    n = 0
    for t in (net._node, net._edge):
        for v in t.values():
            if isinstance(v, dict):
                for s in v.values():
                    seen.add(id(s))
                    n += 1
            elif isinstance(v, set):
                seen.add(id(v))
                n += 1
    for t in (net._node_attr, net._edge_attr):
        for v in t.values():
            seen.add(id(v))
            n += 1
    return [] if len(seen) == n else ["table containers are aliased"]


def inv_H_public(H):
    """The same relation through the public observers."""
    bad = []
    with warnings.catch_warnings():
        warnings.simplefilter("ignore")
        try:
            members = H.edges.members(dtype=dict)
            memberships = H.nodes.memberships()
            nodes = list(H.nodes)
            edges = list(H.edges)
        except Exception as ex:  # an observer that raises is itself a lie
            return [f"observer raised {type(ex).__name__}"]
        for e, mem in members.items():
            for n in mem:
                if n not in memberships:
                    bad.append("reported member is not a node")
                elif e not in memberships[n]:
                    bad.append("reported member lacks the reported membership")
        for n, ms in memberships.items():
            for e in ms:
                if e not in members:
                    bad.append("reported membership is not an edge")
                elif n not in members[e]:
                    bad.append("reported membership lacks the reported member")
        for n in nodes:
            try:
                H.nodes[n]
            except Exception:
                bad.append("node without attribute record")
        for e in edges:
            try:
                H.edges[e]
            except Exception:
                bad.append("edge without attribute record")
        if len(H._node_attr) != len(nodes) or len(H._edge_attr) != len(edges):
            bad.append("attribute record count differs from id count")
    return bad


def inv_D(D):
    bad = []
    node, edge = D._node, D._edge
    for e, mem in edge.items():
        for n in mem["in"]:
            if n not in node:
                bad.append("tail member is not a node")
            elif e not in node[n]["out"]:
                bad.append("tail member lacks the out-membership")
        for n in mem["out"]:
            if n not in node:
                bad.append("head member is not a node")
            elif e not in node[n]["in"]:
                bad.append("head member lacks the in-membership")
    for n, ms in node.items():
        for e in ms["out"]:
            if e not in edge:
                bad.append("out-membership is not an edge")
            elif n not in edge[e]["in"]:
                bad.append("out-membership lacks the tail member")
        for e in ms["in"]:
            if e not in edge:
                bad.append("in-membership is not an edge")
            elif n not in edge[e]["out"]:
                bad.append("in-membership lacks the head member")
    if not _keys_match(node, D._node_attr):
        bad.append("node attribute records do not match nodes")
    if not _keys_match(edge, D._edge_attr):
        bad.append("edge attribute records do not match edges")
    for k in list(node) + list(edge):
        if k is None:
            bad.append("None is an id")
    bad += _aliasing(D)
    return bad


def inv_D_public(D):
    bad = []
    with warnings.catch_warnings():
        warnings.simplefilter("ignore")
        try:
            dm = D.edges.dimembers(dtype=dict)
            dms = D.nodes.dimemberships()
        except Exception as ex:
            return [f"observer raised {type(ex).__name__}"]
        for e, (tail, head) in dm.items():
            for n in tail:
                if n not in dms:
                    bad.append("reported tail member is not a node")
                elif e not in dms[n][1]:
                    bad.append("reported tail member lacks reported out-membership")
            for n in head:
                if n not in dms:
                    bad.append("reported head member is not a node")
                elif e not in dms[n][0]:
                    bad.append("reported head member lacks reported in-membership")
        for n, (inm, outm) in dms.items():
            for e in outm:
                if e not in dm:
                    bad.append("reported out-membership is not an edge")
                elif n not in dm[e][0]:
                    bad.append("reported out-membership lacks reported tail member")
            for e in inm:
                if e not in dm:
                    bad.append("reported in-membership is not an edge")
                elif n not in dm[e][1]:
                    bad.append("reported in-membership lacks reported head member")
        for n in list(D.nodes):
            try:
                D.nodes[n]
            except Exception:
                bad.append("node without attribute record")
        for e in list(D.edges):
            try:
                D.edges[e]
            except Exception:
                bad.append("edge without attribute record")
    return bad


# ---------------------------------------------------------------------------
# snapshots and comparison
# ---------------------------------------------------------------------------
def snap(net, counter=False):
    """Observable state: ordered ids, members (or tail/head), attributes."""
    directed = isinstance(net, xgi.DiHypergraph)
    s = {
        "nodes": list(net._node),
        "edges": list(net._edge),
        "node_attr": {n: _cp(a) for n, a in net._node_attr.items()},
        "edge_attr": {e: _cp(a) for e, a in net._edge_attr.items()},
        "net_attr": _cp(net._net_attr),
    }
    if directed:
        s["members"] = {e: (set(m["in"]), set(m["out"])) for e, m in net._edge.items()}
        s["memberships"] = {n: (set(m["in"]), set(m["out"])) for n, m in net._node.items()}
    else:
        s["members"] = {e: set(m) for e, m in net._edge.items()}
        s["memberships"] = {n: set(m) for n, m in net._node.items()}
    if counter:
        s["counter"] = stubs.counter_value(net._edge_uid)
    return s


def _cp(a):
    if isinstance(a, dict):
        return {k: _cp(v) for k, v in a.items()}
    if isinstance(a, list):
        return [_cp(v) for v in a]
    if isinstance(a, (set, frozenset)):
        return set(a)
    return a


def same(a, b):
    """Deep equality that forks on symbolic comparisons (order-sensitive for lists,
    order-insensitive for dicts/sets)."""
    if isinstance(a, dict):
        if not isinstance(b, dict) or len(a) != len(b):
            return False
        for k, v in a.items():
            if k not in b:
                return False
            if not same(v, b[k]):
                return False
        return True
    if isinstance(a, (list, tuple)):
        if not isinstance(b, (list, tuple)) or len(a) != len(b):
            return False
        for x, y in zip(a, b):
            if not same(x, y):
                return False
        return True
    if isinstance(a, (set, frozenset)):
        if not isinstance(b, (set, frozenset)) or len(a) != len(b):
            return False
        for x in a:
            if x not in b:
                return False
        return True
    if a is b:
        return True
    r = a == b
    return bool(r)


def describe(x):
    """JSON-friendly rendering of (possibly symbolic) values for reports."""
    if isinstance(x, dict):
        return {str(describe(k)): describe(v) for k, v in x.items()}
    if isinstance(x, (list, tuple)):
        return [describe(v) for v in x]
    if isinstance(x, (set, frozenset)):
        return sorted((describe(v) for v in x), key=str)
    if isinstance(x, (int, float, str, bool)) or x is None:
        return x
    return repr(x)
