"""CrossHair contracts over the real index decoders (second engine for C16).

Each private function calls the real xgi decoder twice with symbolic indices and
states range + injectivity as a PEP316 postcondition; `crosshair check
--report_all` must print 'Confirmed over all paths' for each."""
from typing import Tuple

from scipy.special import comb
from xgi.generators.uniform import _index_to_edge_comb, _index_to_edge_prod


def _comb_5_3(i: int, j: int) -> bool:
    """
    pre: 0 <= i < 10
    pre: 0 <= j < 10
    post: _
    """
    a = _index_to_edge_comb(i, 5, 3)
    b = _index_to_edge_comb(j, 5, 3)
    ok = len(a) == 3 and all(0 <= x < 5 for x in a) and a[0] < a[1] < a[2]
    return ok and ((a == b) == (i == j))


def _comb_6_2(i: int, j: int) -> bool:
    """
    pre: 0 <= i < 15
    pre: 0 <= j < 15
    post: _
    """
    a = _index_to_edge_comb(i, 6, 2)
    b = _index_to_edge_comb(j, 6, 2)
    ok = len(a) == 2 and all(0 <= x < 6 for x in a) and a[0] < a[1]
    return ok and ((a == b) == (i == j))


def _prod_3_3(i: int, j: int) -> bool:
    """
    pre: 0 <= i < 27
    pre: 0 <= j < 27
    post: _
    """
    a = _index_to_edge_prod(i, 3, 3)
    b = _index_to_edge_prod(j, 3, 3)
    ok = len(a) == 3 and all(0 <= x < 3 for x in a)
    return ok and ((a == b) == (i == j))


def _prod_4_2(i: int, j: int) -> bool:
    """
    pre: 0 <= i < 16
    pre: 0 <= j < 16
    post: _
    """
    a = _index_to_edge_prod(i, 4, 2)
    b = _index_to_edge_prod(j, 4, 2)
    ok = len(a) == 2 and all(0 <= x < 4 for x in a)
    return ok and ((a == b) == (i == j))
