"""The mutator alphabets of the three classes with symbolic arguments.

An op is a function op(ctx, net, P) that draws its arguments from ctx (fresh
unconstrained labels: they may coincide with any present id or with none, and
with each other), records them in ctx.info['args'], and makes ONE public call.
P gives size parameters (member list length, bulk length).  Exceptions
propagate to the harness."""
import warnings

import xgi

from . import nets
from .nets import describe


def _rec(ctx, **kw):
    ctx.info["args"] = kw  # rendered lazily (runner._jsonable) - repr of terms is slow


def _members(ctx, k, prefix="m"):
    return [ctx.fresh(prefix) for _ in range(k)]


# ---------------------------------------------------------------------------
# Hypergraph
# ---------------------------------------------------------------------------
def h_add_node(ctx, H, P):
    a = ctx.fresh()
    v = ctx.fresh("v")
    _rec(ctx, node=a, attr=v)
    H.add_node(a, k=v)


def h_add_nodes_from(ctx, H, P):
    a, b = ctx.fresh(), ctx.fresh()
    _rec(ctx, nodes=[a, b])
    H.add_nodes_from([a, b])


def h_add_nodes_from_attr(ctx, H, P):
    a, b = ctx.fresh(), ctx.fresh()
    v, w = ctx.fresh("v"), ctx.fresh("v")
    _rec(ctx, nodes=[(a, {"k": v}), (b, {})], kw=w)
    H.add_nodes_from([(a, {"k": v}), (b, {})], k=w)


def h_remove_node(ctx, H, P):
    a = ctx.fresh()
    strong, re = ctx.flag("strong"), ctx.flag("remove_empty")
    _rec(ctx, n=a, strong=strong, remove_empty=re)
    H.remove_node(a, strong=strong, remove_empty=re)


def h_remove_nodes_from(ctx, H, P):
    a, b = ctx.fresh(), ctx.fresh()
    strong, re = ctx.flag("strong"), ctx.flag("remove_empty")
    _rec(ctx, nodes=[a, b], strong=strong, remove_empty=re)
    H.remove_nodes_from([a, b], strong=strong, remove_empty=re)


def h_add_edge(ctx, H, P):
    k = ctx.choose("k", P["members"] + 1)
    mem = _members(ctx, k)
    use_idx = ctx.flag("use_idx")
    idx = ctx.fresh("i") if use_idx else None
    v = ctx.fresh("v")
    _rec(ctx, members=mem, idx=idx, attr=v)
    ctx.info["expect_edge"] = (idx, set(mem))
    H.add_edge(mem, idx=idx, k=v)


def h_add_edge_none(ctx, H, P):
    """None as a member (documented: None cannot be a node)."""
    a = ctx.fresh()
    pos = ctx.choose("pos", 2)
    mem = [a, None] if pos else [None, a]
    use_idx = ctx.flag("use_idx")
    idx = ctx.fresh("i") if use_idx else None
    _rec(ctx, members=mem, idx=idx)
    H.add_edge(mem, idx=idx)


def h_add_edges_from_none(ctx, H, P):
    """None as a member inside a bulk call (formats 1, 2 and 5)."""
    a = ctx.fresh()
    fmt = ctx.choose("fmt", 3)
    mem = [a, None]
    i = ctx.fresh("i")
    _rec(ctx, members=mem, fmt=[1, 2, 5][fmt], idx=i)
    if fmt == 0:
        H.add_edges_from([mem])
    elif fmt == 1:
        H.add_edges_from([(mem, i)])
    else:
        H.add_edges_from({i: mem})


NONE_CALLS_H = [
    "add_node(None)",
    "add_nodes_from([a, None])",
    "add_nodes_from([(None, {})])",
    "add_node_to_edge(e, None)",
    "add_node_to_edge(None, a)",
    "remove_node(None)",
    "remove_nodes_from([None, a])",
    "remove_edge(None)",
    "remove_edges_from([e, None])",
    "remove_node_from_edge(e, None)",
    "remove_node_from_edge(None, a)",
    "add_edges_from({None: [a]})",
    "add_edges_from([([a], None)])",
    "double_edge_swap(a, None, e, e2)",
    "set_node_attributes({None: {'k': 1}})",
]


def h_none_ids(ctx, H, P):
    """None in every id position of the single-id mutators."""
    a, e, e2 = ctx.fresh(), ctx.fresh("i"), ctx.fresh("i")
    w = ctx.choose("which", len(NONE_CALLS_H))
    call = NONE_CALLS_H[w]
    _rec(ctx, call=call, a=a, e=e, e2=e2)
    eval("H." + call, {"H": H, "a": a, "e": e, "e2": e2})


FS = frozenset({"q"})
EXOTIC_CALLS_H = [
    "add_edge([a, [b]])",
    "add_edge([a, [b]], idx=e)",
    "add_edges_from([[a, b], [a, [b]]])",
    "add_edges_from({e: [a, [b]]})",
    "add_edges_from([([a, [b]], e)])",
    "add_nodes_from([a, [b]])",
    "add_node_to_edge(e, [b])",
    "add_edge([a, b], idx=FS)",
    "add_edge([a, b], idx=b'x')",
    "add_edges_from([([a, b], FS)])",
    "add_edges_from({FS: [a, b]})",
    "add_edges_from([([a, b], FS, {'k': 1})])",
    "add_node_to_edge(FS, a)",
]


def h_exotic_args(ctx, H, P):
    """Unhashable members, and edge ids that are hashable but not numbers, strings or
    tuples (frozenset, bytes): whatever the call does, the tables must stay consistent."""
    a, b, e = ctx.fresh(), ctx.fresh(), ctx.fresh("i")
    call = EXOTIC_CALLS_H[ctx.choose("which", len(EXOTIC_CALLS_H))]
    _rec(ctx, call=call, a=a, b=b, e=e)
    eval("H." + call, {"H": H, "a": a, "b": b, "e": e, "FS": FS})


def h_add_edges_from_iter(ctx, H, P):
    """Members given as one-shot iterators (documented: any iterable)."""
    a, b = ctx.fresh(), ctx.fresh()
    fmt = ctx.choose("fmt", 4)
    i = ctx.fresh("i")
    _rec(ctx, members=[a, b], fmt=["add_edge", 1, 2, 5][fmt], idx=i)
    ctx.info["expect_members"] = set([a, b])
    if fmt == 0:
        H.add_edge(iter([a, b]), idx=i)
    elif fmt == 1:
        H.add_edges_from([iter([a, b])])
    elif fmt == 2:
        H.add_edges_from([(iter([a, b]), i)])
    else:
        H.add_edges_from({i: iter([a, b])})


def h_add_edges_from_setarg(ctx, H, P):
    """Members given as a set object that the caller edits afterwards: the network
    must have stored its own copy."""
    a, b = ctx.fresh(), ctx.fresh()
    fmt = ctx.choose("fmt", 4)
    i = ctx.fresh("i")
    mem = set([a, b])
    _rec(ctx, members=[a, b], fmt=["add_edge", 1, 2, 5][fmt], idx=i)
    if fmt == 0:
        H.add_edge(mem, idx=i)
    elif fmt == 1:
        H.add_edges_from([mem])
    elif fmt == 2:
        H.add_edges_from([(mem, i)])
    else:
        j = ctx.fresh("i")
        ctx.assume(i != j)
        eb = {}
        eb[i] = mem
        eb[j] = mem  # one set object under two ids
        H.add_edges_from(eb)
    mem.add(ctx.fresh())  # the caller keeps using its own set
    mem.discard(a)


def h_add_edges_from_attrpairs(ctx, H, P):
    """Per-edge attributes given as a list of (key, value) pairs (accepted by
    dict.update) or as an invalid value: the state after a raise must be consistent."""
    a, b, v = ctx.fresh(), ctx.fresh(), ctx.fresh("v")
    i = ctx.fresh("i")
    kind = ctx.choose("attrkind", 3)
    eattr = [[("k", v)], None, 5][kind]
    fmt = ctx.choose("fmt", 2)
    _rec(ctx, members=[a, b], idx=i, fmt=[3, 4][fmt], eattr=["pairs", "None", "int"][kind])
    if fmt == 0:
        H.add_edges_from([([a, b], eattr)] if kind == 0 else [([a, b], {}), ([a], eattr)])
    else:
        H.add_edges_from([([a, b], i, eattr)])


def h_add_edge_stridx(ctx, H, P):
    mem = _members(ctx, 2)
    _rec(ctx, members=mem, idx="edge-s")
    H.add_edge(mem, idx="edge-s")


def _bulk(ctx, P):
    n = P["bulk"]
    out = []
    for _ in range(n):
        k = ctx.choose(f"bk{len(out)}", P.get("bulk_members", 2) + 1)
        out.append(_members(ctx, k))
    return out


def h_add_edges_from_1(ctx, H, P):
    ms = _bulk(ctx, P)
    w = ctx.fresh("v")
    _rec(ctx, ebunch=ms, kw=w)
    H.add_edges_from(ms, k=w)


def h_add_edges_from_2(ctx, H, P):
    ms = _bulk(ctx, P)
    eb = [(m, ctx.fresh("i")) for m in ms]
    _rec(ctx, ebunch=eb)
    ctx.info["expect_bulk"] = [(i, set(m)) for m, i in eb]
    H.add_edges_from(eb)


def h_add_edges_from_3(ctx, H, P):
    ms = _bulk(ctx, P)
    w = ctx.fresh("v")
    eb = [(m, {"k": ctx.fresh("v")} if i == 0 else {}) for i, m in enumerate(ms)]
    _rec(ctx, ebunch=eb, kw=w)
    H.add_edges_from(eb, k=w)


def h_add_edges_from_4(ctx, H, P):
    ms = _bulk(ctx, P)
    w = ctx.fresh("v")
    eb = [(m, ctx.fresh("i"), {"k": ctx.fresh("v")} if i == 0 else {}) for i, m in enumerate(ms)]
    _rec(ctx, ebunch=eb, kw=w)
    ctx.info["expect_bulk"] = [(t[1], set(t[0])) for t in eb]
    H.add_edges_from(eb, k=w)


def h_add_edges_from_5(ctx, H, P):
    ms = _bulk(ctx, P)
    ids = [ctx.fresh("i") for _ in ms]
    ctx.assume(*[ids[i] != ids[j] for i in range(len(ids)) for j in range(i)])  # dict keys
    eb = {}
    for i, m in zip(ids, ms):
        eb[i] = m
    _rec(ctx, ebunch=eb)
    ctx.info["expect_bulk"] = [(i, set(m)) for i, m in eb.items()]
    H.add_edges_from(eb)


def h_add_weighted_edges_from(ctx, H, P):
    ms = _bulk(ctx, P)
    eb = [tuple(m) + (ctx.fresh("v"),) for m in ms]
    _rec(ctx, ebunch=eb)
    H.add_weighted_edges_from(eb)


def h_add_node_to_edge(ctx, H, P):
    e, n = ctx.fresh("i"), ctx.fresh()
    _rec(ctx, edge=e, node=n)
    H.add_node_to_edge(e, n)


def h_remove_edge(ctx, H, P):
    e = ctx.fresh("i")
    _rec(ctx, idx=e)
    H.remove_edge(e)


def h_remove_edges_from(ctx, H, P):
    e, f = ctx.fresh("i"), ctx.fresh("i")
    _rec(ctx, ebunch=[e, f])
    H.remove_edges_from([e, f])


def h_remove_node_from_edge(ctx, H, P):
    e, n = ctx.fresh("i"), ctx.fresh()
    re = ctx.flag("remove_empty")
    _rec(ctx, edge=e, node=n, remove_empty=re)
    H.remove_node_from_edge(e, n, remove_empty=re)


def h_double_edge_swap(ctx, H, P):
    n1, n2, e1, e2 = ctx.fresh(), ctx.fresh(), ctx.fresh("i"), ctx.fresh("i")
    _rec(ctx, n_id1=n1, n_id2=n2, e_id1=e1, e_id2=e2)
    H.double_edge_swap(n1, n2, e1, e2)


def h_random_edge_shuffle(ctx, H, P):
    given = ctx.flag("given")
    if given:
        e1, e2 = ctx.fresh("i"), ctx.fresh("i")
        ctx.assume(e1 != e2)
    else:
        e1 = e2 = None
    _rec(ctx, e_id1=e1, e_id2=e2)
    H.random_edge_shuffle(e1, e2)


def h_set_node_attributes(ctx, H, P):
    a = ctx.fresh()
    v = ctx.fresh("v")
    mode = ctx.choose("mode", 3)
    _rec(ctx, node=a, value=v, mode=mode)
    if mode == 0:
        H.set_node_attributes({a: {"k": v}})
    elif mode == 1:
        H.set_node_attributes({a: v}, name="k")
    else:
        H.set_node_attributes(v, name="k")


def h_set_edge_attributes(ctx, H, P):
    a = ctx.fresh("i")
    v = ctx.fresh("v")
    mode = ctx.choose("mode", 3)
    _rec(ctx, edge=a, value=v, mode=mode)
    if mode == 0:
        H.set_edge_attributes({a: {"k": v}})
    elif mode == 1:
        H.set_edge_attributes({a: v}, name="k")
    else:
        H.set_edge_attributes(v, name="k")


def h_update(ctx, H, P):
    a = ctx.fresh()
    m = _members(ctx, 2)
    _rec(ctx, nodes=[a], edges=[m])
    H.update(edges=[m], nodes=[a])


def h_clear(ctx, H, P):
    r = ctx.flag("remove_net_attr")
    _rec(ctx, remove_net_attr=r)
    H.clear(remove_net_attr=r)


def h_clear_edges(ctx, H, P):
    _rec(ctx)
    H.clear_edges()


RENAMES = ["first", "tuple", "new"]
MERGE_RULES = ["first", "union", "intersection"]


def h_merge_duplicate_edges(ctx, H, P):
    r = RENAMES[ctx.choose("rename", 3)]
    m = MERGE_RULES[ctx.choose("merge_rule", 3)]
    mult = "mult" if ctx.flag("mult") else None
    _rec(ctx, rename=r, merge_rule=m, multiplicity=mult)
    H.merge_duplicate_edges(rename=r, merge_rule=m, multiplicity=mult)


def h_cleanup(ctx, H, P):
    fl = {k: ctx.flag(k) for k in ("isolates", "singletons", "multiedges", "connected", "relabel")}
    _rec(ctx, **fl)
    H.cleanup(in_place=True, **fl)


def h_convert_labels(ctx, H, P):
    _rec(ctx)
    xgi.convert_labels_to_integers(H, in_place=True)


def h_largest_cc(ctx, H, P):
    _rec(ctx)
    xgi.largest_connected_hypergraph(H, in_place=True)


OPS_H = {
    f.__name__[2:]: f
    for f in [
        h_add_node,
        h_add_nodes_from,
        h_add_nodes_from_attr,
        h_remove_node,
        h_remove_nodes_from,
        h_add_edge,
        h_add_edge_none,
        h_add_edges_from_none,
        h_add_edges_from_iter,
        h_add_edges_from_setarg,
        h_add_edges_from_attrpairs,
        h_none_ids,
        h_exotic_args,
        h_add_edge_stridx,
        h_add_edges_from_1,
        h_add_edges_from_2,
        h_add_edges_from_3,
        h_add_edges_from_4,
        h_add_edges_from_5,
        h_add_weighted_edges_from,
        h_add_node_to_edge,
        h_remove_edge,
        h_remove_edges_from,
        h_remove_node_from_edge,
        h_double_edge_swap,
        h_random_edge_shuffle,
        h_set_node_attributes,
        h_set_edge_attributes,
        h_update,
        h_clear,
        h_clear_edges,
        h_merge_duplicate_edges,
        h_cleanup,
        h_convert_labels,
        h_largest_cc,
    ]
}


# ops that only add: every edge present before the call must be unchanged after it
ADD_ONLY = {
    "add_node", "add_nodes_from", "add_nodes_from_attr", "add_edge", "add_edge_none", "add_edge_stridx",
    "add_edges_from_none", "add_edges_from_1", "add_edges_from_2", "add_edges_from_3", "add_edges_from_4",
    "add_edges_from_5", "add_weighted_edges_from", "update", "add_simplex", "add_simplex_none", "add_edges_from_iter",
    "add_simplices_from_1", "add_simplices_from_2", "add_simplices_from_3", "add_simplices_from_4",
    "add_simplices_from_5", "add_weighted_simplices_from", "dep_add_edge", "dep_add_edges_from",
    "add_simplices_from_maxorder", "add_simplices_from_iter", "exotic_args",
}

HEAVY_H = {
    "add_edges_from_attrpairs",
    "add_edges_from_iter",
    "add_edges_from_setarg",
    "add_edges_from_1",
    "add_edges_from_2",
    "add_edges_from_3",
    "add_edges_from_4",
    "add_edges_from_5",
    "add_weighted_edges_from",
}


def apply(ctx, net, op, P):
    """Run one op; returns ('returned', None, warnings) or ('raised', exc, warnings)."""
    with warnings.catch_warnings(record=True) as w:
        warnings.simplefilter("always")
        try:
            op(ctx, net, P)
            return "returned", None, [str(x.category.__name__) for x in w]
        except Exception as ex:
            return "raised", ex, [str(x.category.__name__) for x in w]


# ---------------------------------------------------------------------------
# DiHypergraph
# ---------------------------------------------------------------------------
def _dimembers(ctx, kt, kh):
    return ([ctx.fresh("m") for _ in range(kt)], [ctx.fresh("m") for _ in range(kh)])


def d_add_node(ctx, D, P):
    a, v = ctx.fresh(), ctx.fresh("v")
    _rec(ctx, node=a, attr=v)
    D.add_node(a, k=v)


def d_add_nodes_from(ctx, D, P):
    a, b, v, w = ctx.fresh(), ctx.fresh(), ctx.fresh("v"), ctx.fresh("v")
    _rec(ctx, nodes=[(a, {"k": v}), b], kw=w)
    D.add_nodes_from([(a, {"k": v}), (b, {})], k=w)


def d_remove_node(ctx, D, P):
    a = ctx.fresh()
    strong, re = ctx.flag("strong"), ctx.flag("remove_empty")
    _rec(ctx, n=a, strong=strong, remove_empty=re)
    D.remove_node(a, strong=strong, remove_empty=re)


def d_remove_nodes_from(ctx, D, P):
    a, b = ctx.fresh(), ctx.fresh()
    strong, re = ctx.flag("strong"), ctx.flag("remove_empty")
    _rec(ctx, nodes=[a, b], strong=strong, remove_empty=re)
    D.remove_nodes_from([a, b], strong=strong, remove_empty=re)


def d_add_edge(ctx, D, P):
    dm = P.get("dimembers", 2) + 1
    kt, kh = ctx.choose("kt", dm), ctx.choose("kh", dm)
    mem = _dimembers(ctx, kt, kh)
    idx = ctx.fresh("i") if ctx.flag("use_idx") else None
    v = ctx.fresh("v")
    _rec(ctx, members=mem, idx=idx, attr=v)
    ctx.info["expect_edge"] = (idx, (set(mem[0]), set(mem[1])))
    D.add_edge(mem, idx=idx, k=v)


def d_add_edges_from_iter(ctx, D, P):
    a, b = ctx.fresh(), ctx.fresh()
    fmt = ctx.choose("fmt", 4)
    i = ctx.fresh("i")
    _rec(ctx, tail=[a], head=[b], fmt=["add_edge", 1, 2, 5][fmt], idx=i)
    if fmt == 0:
        D.add_edge((iter([a]), iter([b])), idx=i)
    elif fmt == 1:
        D.add_edges_from([(iter([a]), iter([b]))])
    elif fmt == 2:
        D.add_edges_from([((iter([a]), iter([b])), i)])
    else:
        D.add_edges_from({i: (iter([a]), iter([b]))})


def d_add_edge_none(ctx, D, P):
    a = ctx.fresh()
    pos = ctx.choose("pos", 2)
    mem = ([a, None], [a]) if pos else ([a], [None])
    idx = ctx.fresh("i") if ctx.flag("use_idx") else None
    _rec(ctx, members=mem, idx=idx)
    D.add_edge(mem, idx=idx)


def d_add_edges_from_none(ctx, D, P):
    """None as a tail/head member inside a bulk call (formats 1, 2, 4 and 5)."""
    a, b = ctx.fresh(), ctx.fresh()
    fmt = ctx.choose("fmt", 4)
    pos = ctx.choose("pos", 3)
    mem = [([a, None], [b]), ([a], [None, b]), ([None], [])][pos]
    i = ctx.fresh("i")
    _rec(ctx, members=mem, fmt=[1, 2, 4, 5][fmt], idx=i)
    if fmt == 0:
        D.add_edges_from([mem])
    elif fmt == 1:
        D.add_edges_from([(mem, i)])
    elif fmt == 2:
        D.add_edges_from([(mem, i, {"k": a})])
    else:
        D.add_edges_from({i: mem})


def _dibulk(ctx, P):
    out = []
    for j in range(P["bulk"]):
        dm = P.get("bulk_dimembers", 1) + 1
        kt, kh = ctx.choose(f"bt{j}", dm), ctx.choose(f"bh{j}", dm)
        out.append(_dimembers(ctx, kt, kh))
    return out


def d_add_edges_from_1(ctx, D, P):
    ms = _dibulk(ctx, P)
    w = ctx.fresh("v")
    _rec(ctx, ebunch=ms, kw=w)
    D.add_edges_from(ms, k=w)


def d_add_edges_from_2(ctx, D, P):
    eb = [(m, ctx.fresh("i")) for m in _dibulk(ctx, P)]
    _rec(ctx, ebunch=eb)
    ctx.info["expect_bulk"] = [(i, (set(m[0]), set(m[1]))) for m, i in eb]
    D.add_edges_from(eb)


def d_add_edges_from_3(ctx, D, P):
    w = ctx.fresh("v")
    eb = [(m, {"k": ctx.fresh("v")} if i == 0 else {}) for i, m in enumerate(_dibulk(ctx, P))]
    _rec(ctx, ebunch=eb, kw=w)
    D.add_edges_from(eb, k=w)


def d_add_edges_from_4(ctx, D, P):
    w = ctx.fresh("v")
    eb = [(m, ctx.fresh("i"), {"k": ctx.fresh("v")} if i == 0 else {}) for i, m in enumerate(_dibulk(ctx, P))]
    _rec(ctx, ebunch=eb, kw=w)
    ctx.info["expect_bulk"] = [(t[1], (set(t[0][0]), set(t[0][1]))) for t in eb]
    D.add_edges_from(eb, k=w)


def d_add_edges_from_5(ctx, D, P):
    ms = _dibulk(ctx, P)
    ids = [ctx.fresh("i") for _ in ms]
    ctx.assume(*[ids[i] != ids[j] for i in range(len(ids)) for j in range(i)])
    eb = {}
    for i, m in zip(ids, ms):
        eb[i] = m
    _rec(ctx, ebunch=eb)
    ctx.info["expect_bulk"] = [(i, (set(m[0]), set(m[1]))) for i, m in eb.items()]
    D.add_edges_from(eb)


def d_add_edges_from_setarg(ctx, D, P):
    """Tail/head given as set objects - one tail set shared by two entries of a dict -
    which the caller edits afterwards: the network must have stored its own copies."""
    a, b, c = ctx.fresh(), ctx.fresh(), ctx.fresh()
    fmt = ctx.choose("fmt", 4)
    i, j = ctx.fresh("i"), ctx.fresh("i")
    ctx.assume(i != j)
    T, Hd, Hd2 = set([a]), set([b]), set([c])
    _rec(ctx, tail=[a], head=[b], head2=[c], fmt=["add_edge", 1, 2, "5 (shared tail set)"][fmt], idx=i, idx2=j)
    if fmt == 0:
        D.add_edge((T, Hd), idx=i)
    elif fmt == 1:
        D.add_edges_from([(T, Hd)])
    elif fmt == 2:
        D.add_edges_from([((T, Hd), i)])
    else:
        eb = {}
        eb[i] = (T, Hd)
        eb[j] = (T, Hd2)
        D.add_edges_from(eb)
    T.add(ctx.fresh())  # the caller keeps using its own sets
    T.discard(a)
    Hd.add(ctx.fresh())


DIRS = ["in", "out", "sideways"]


def d_add_node_to_edge(ctx, D, P):
    e, n = ctx.fresh("i"), ctx.fresh()
    d = DIRS[ctx.choose("dir", 3)]
    _rec(ctx, edge=e, node=n, direction=d)
    D.add_node_to_edge(e, n, d)


def d_remove_node_from_edge(ctx, D, P):
    e, n = ctx.fresh("i"), ctx.fresh()
    d = DIRS[ctx.choose("dir", 3)]
    re = ctx.flag("remove_empty")
    _rec(ctx, edge=e, node=n, direction=d, remove_empty=re)
    D.remove_node_from_edge(e, n, d, remove_empty=re)


def d_remove_edge(ctx, D, P):
    e = ctx.fresh("i")
    _rec(ctx, idx=e)
    D.remove_edge(e)


def d_remove_edges_from(ctx, D, P):
    e, f = ctx.fresh("i"), ctx.fresh("i")
    _rec(ctx, ebunch=[e, f])
    D.remove_edges_from([e, f])


def d_set_node_attributes(ctx, D, P):
    a, v = ctx.fresh(), ctx.fresh("v")
    mode = ctx.choose("mode", 3)
    _rec(ctx, node=a, value=v, mode=mode)
    if mode == 0:
        D.set_node_attributes({a: {"k": v}})
    elif mode == 1:
        D.set_node_attributes({a: v}, name="k")
    else:
        D.set_node_attributes(v, name="k")


def d_set_edge_attributes(ctx, D, P):
    a, v = ctx.fresh("i"), ctx.fresh("v")
    mode = ctx.choose("mode", 3)
    _rec(ctx, edge=a, value=v, mode=mode)
    if mode == 0:
        D.set_edge_attributes({a: {"k": v}})
    elif mode == 1:
        D.set_edge_attributes({a: v}, name="k")
    else:
        D.set_edge_attributes(v, name="k")


def d_clear(ctx, D, P):
    r = ctx.flag("remove_net_attr")
    _rec(ctx, remove_net_attr=r)
    D.clear(remove_net_attr=r)


def d_cleanup(ctx, D, P):
    fl = {k: ctx.flag(k) for k in ("isolates", "relabel")}
    _rec(ctx, **fl)
    D.cleanup(in_place=True, **fl)


def d_convert_labels(ctx, D, P):
    _rec(ctx)
    xgi.convert_labels_to_integers(D, in_place=True)


NONE_CALLS_D = [
    "add_node(None)",
    "add_nodes_from([a, None])",
    "add_node_to_edge(e, None, 'in')",
    "add_node_to_edge(e, None, 'out')",
    "add_node_to_edge(None, a, 'in')",
    "remove_node(None)",
    "remove_nodes_from([None, a])",
    "remove_edge(None)",
    "remove_edges_from([e, None])",
    "remove_node_from_edge(e, None, 'in')",
    "add_edges_from({None: ([a], [a])})",
    "add_edges_from([(([a], []), None)])",
]


def d_none_ids(ctx, D, P):
    a, e = ctx.fresh(), ctx.fresh("i")
    call = NONE_CALLS_D[ctx.choose("which", len(NONE_CALLS_D))]
    _rec(ctx, call=call, a=a, e=e)
    eval("D." + call, {"D": D, "a": a, "e": e})


EXOTIC_CALLS_D = [
    "add_edge(([a], [[b]]))",
    "add_edge(([[a]], [b]))",
    "add_edge(([a], [[b]]), idx=e)",
    "add_edges_from([([a], [b]), ([a], [[b]])])",
    "add_edges_from({e: ([a], [[b]])})",
    "add_edges_from([(([[a]], [b]), e)])",
    "add_nodes_from([a, [b]])",
    "add_node_to_edge(e, [b], 'in')",
    "add_edge(([a], [b]), idx=FS)",
    "add_edge(([a], [b]), idx=b'x')",
    "add_edges_from([(([a], [b]), FS)])",
    "add_edges_from({FS: ([a], [b])})",
    "add_node_to_edge(FS, a, 'out')",
]


def d_exotic_args(ctx, D, P):
    a, b, e = ctx.fresh(), ctx.fresh(), ctx.fresh("i")
    call = EXOTIC_CALLS_D[ctx.choose("which", len(EXOTIC_CALLS_D))]
    _rec(ctx, call=call, a=a, b=b, e=e)
    eval("D." + call, {"D": D, "a": a, "b": b, "e": e, "FS": FS})


OPS_D = {
    f.__name__[2:]: f
    for f in [
        d_add_node,
        d_add_nodes_from,
        d_remove_node,
        d_remove_nodes_from,
        d_add_edge,
        d_add_edge_none,
        d_add_edges_from_none,
        d_add_edges_from_iter,
        d_none_ids,
        d_exotic_args,
        d_add_edges_from_1,
        d_add_edges_from_2,
        d_add_edges_from_3,
        d_add_edges_from_4,
        d_add_edges_from_5,
        d_add_edges_from_setarg,
        d_add_node_to_edge,
        d_remove_node_from_edge,
        d_remove_edge,
        d_remove_edges_from,
        d_set_node_attributes,
        d_set_edge_attributes,
        d_clear,
        d_cleanup,
        d_convert_labels,
    ]
}
HEAVY_D = {"add_edges_from_setarg", "add_edges_from_iter", "add_edges_from_none", "add_edges_from_1", "add_edges_from_2", "add_edges_from_3", "add_edges_from_4", "add_edges_from_5"}


# ---------------------------------------------------------------------------
# SimplicialComplex
# ---------------------------------------------------------------------------
MAX_ORDERS = [None, 0, 1, 2, 3]


def _max_order(ctx, P):
    mos = P.get("max_orders", MAX_ORDERS)
    return mos[ctx.choose("max_order", len(mos))]


def s_add_simplex(ctx, S, P):
    k = ctx.choose("k", P.get("smembers", P["members"]) + 1)
    mem = _members(ctx, k)
    idx = ctx.fresh("i") if ctx.flag("use_idx") else None
    v = ctx.fresh("v")
    _rec(ctx, members=mem, idx=idx, attr=v)
    ctx.info["expect_edge"] = (idx, set(mem))
    S.add_simplex(mem, idx=idx, k=v)


def s_add_simplex_none(ctx, S, P):
    a = ctx.fresh()
    mem = [a, None] if ctx.choose("pos", 2) else [None, a]
    _rec(ctx, members=mem)
    S.add_simplex(mem)


def _sbulk(ctx, P):
    out = []
    for j in range(P["bulk"]):
        # first entry up to sbulk_first members, later entries up to sbulk_rest
        kmax = P.get("sbulk_first", 3) if j == 0 else P.get("sbulk_rest", 2)
        k = ctx.choose(f"bk{j}", kmax + 1)
        out.append(_members(ctx, k))
    return out


def s_add_simplices_from_1(ctx, S, P):
    ms = _sbulk(ctx, P)
    mo = _max_order(ctx, P)
    _rec(ctx, ebunch=ms, max_order=mo)
    S.add_simplices_from(ms, max_order=mo)


def s_add_simplices_from_2(ctx, S, P):
    eb = [(m, ctx.fresh("i")) for m in _sbulk(ctx, P)]
    mo = _max_order(ctx, P)
    _rec(ctx, ebunch=eb, max_order=mo)
    S.add_simplices_from(eb, max_order=mo)


def s_add_simplices_from_3(ctx, S, P):
    eb = [(m, {"k": ctx.fresh("v")}) for m in _sbulk(ctx, P)]
    mo = _max_order(ctx, P)
    _rec(ctx, ebunch=eb, max_order=mo)
    S.add_simplices_from(eb, max_order=mo)


def s_add_simplices_from_4(ctx, S, P):
    eb = [(m, ctx.fresh("i"), {"k": ctx.fresh("v")}) for m in _sbulk(ctx, P)]
    mo = _max_order(ctx, P)
    _rec(ctx, ebunch=eb, max_order=mo)
    S.add_simplices_from(eb, max_order=mo)


def s_add_simplices_from_5(ctx, S, P):
    ms = _sbulk(ctx, P)
    ids = [ctx.fresh("i") for _ in ms]
    ctx.assume(*[ids[i] != ids[j] for i in range(len(ids)) for j in range(i)])
    eb = {}
    for i, m in zip(ids, ms):
        eb[i] = m
    mo = _max_order(ctx, P)
    _rec(ctx, ebunch=eb, max_order=mo)
    S.add_simplices_from(eb, max_order=mo)


def s_add_simplices_from_maxorder(ctx, S, P):
    """One large simplex (4 or 5 brand-new vertices) under every max_order: the
    truncation path (powerset of the members) is what the small bulk ops miss."""
    k = 4 + ctx.choose("k5", 2)
    mem = _members(ctx, k)
    ctx.assume(*[mem[i] != mem[j] for i in range(k) for j in range(i)], *[m != n for m in mem for n in S._node])
    mo = [0, 1, 2, 3][ctx.choose("max_order", 4)]
    fmt = ctx.choose("fmt", 2)
    _rec(ctx, members=mem, max_order=mo, fmt=[1, 5][fmt])
    if fmt == 0:
        S.add_simplices_from([mem], max_order=mo)
    else:
        i = ctx.fresh("i")
        S.add_simplices_from({i: mem}, max_order=mo)


def s_add_simplices_from_iter(ctx, S, P):
    a, b, c = ctx.fresh(), ctx.fresh(), ctx.fresh()
    fmt = ctx.choose("fmt", 4)
    i = ctx.fresh("i")
    _rec(ctx, members=[a, b, c], fmt=["add_simplex", 1, 2, 5][fmt], idx=i)
    if fmt == 0:
        S.add_simplex(iter([a, b, c]), idx=i)
    elif fmt == 1:
        S.add_simplices_from([iter([a, b, c])])
    elif fmt == 2:
        S.add_simplices_from([(iter([a, b, c]), i)])
    else:
        S.add_simplices_from({i: iter([a, b, c])})


def s_add_weighted_simplices_from(ctx, S, P):
    eb = [tuple(m) + (ctx.fresh("v"),) for m in _sbulk(ctx, P)]
    mo = _max_order(ctx, P)
    _rec(ctx, ebunch=eb, max_order=mo)
    S.add_weighted_simplices_from(eb, max_order=mo)


def s_remove_simplex_id(ctx, S, P):
    e = ctx.fresh("i")
    _rec(ctx, idx=e)
    S.remove_simplex_id(e)


def s_remove_simplex_ids_from(ctx, S, P):
    e, f = ctx.fresh("i"), ctx.fresh("i")
    _rec(ctx, ebunch=[e, f])
    S.remove_simplex_ids_from([e, f])


def s_remove_node(ctx, S, P):
    a = ctx.fresh()
    _rec(ctx, n=a)
    S.remove_node(a)


def s_remove_nodes_from(ctx, S, P):
    a, b = ctx.fresh(), ctx.fresh()
    _rec(ctx, nodes=[a, b])
    S.remove_nodes_from([a, b])


def s_add_node(ctx, S, P):
    a = ctx.fresh()
    _rec(ctx, node=a)
    S.add_node(a)


def s_close(ctx, S, P):
    _rec(ctx)
    S.close()


def s_cleanup(ctx, S, P):
    fl = {k: ctx.flag(k) for k in ("isolates", "connected", "relabel")}
    _rec(ctx, **fl)
    S.cleanup(in_place=True, **fl)


def s_dep_add_edge(ctx, S, P):
    mem = _members(ctx, ctx.choose("k", 4))
    idx = ctx.fresh("i") if ctx.flag("use_idx") else None
    _rec(ctx, members=mem, idx=idx)
    S.add_edge(mem, idx=idx)


def s_dep_add_edges_from(ctx, S, P):
    ms = _sbulk(ctx, P)
    _rec(ctx, ebunch=ms)
    S.add_edges_from(ms)


def s_dep_remove_edge(ctx, S, P):
    e = ctx.fresh("i")
    _rec(ctx, idx=e)
    S.remove_edge(e)


def s_dep_remove_edges_from(ctx, S, P):
    e, f = ctx.fresh("i"), ctx.fresh("i")
    _rec(ctx, ebunch=[e, f])
    S.remove_edges_from([e, f])


def s_add_node_to_edge(ctx, S, P):
    e, n = ctx.fresh("i"), ctx.fresh()
    _rec(ctx, edge=e, node=n)
    S.add_node_to_edge(e, n)


def s_clear(ctx, S, P):
    _rec(ctx)
    S.clear()


def s_convert_labels(ctx, S, P):
    _rec(ctx)
    xgi.convert_labels_to_integers(S, in_place=True)


EXOTIC_CALLS_S = [
    "add_simplex([a, [b]])",
    "add_simplex([a, b, [c]], idx=e)",
    "add_simplices_from([[a, b, c], [[a], b]])",
    "add_simplices_from({e: [a, b, [c]]})",
    "add_simplex([a, b, c], idx=FS)",
    "add_simplex([a, b, c], idx=b'x')",
    "add_simplices_from([([a, b, c], FS)])",
    "add_simplices_from({FS: [a, b, c]})",
    "add_simplices_from([([a, b, c], FS, {'k': 1})])",
]


def s_exotic_args(ctx, S, P):
    a, b, c, e = ctx.fresh(), ctx.fresh(), ctx.fresh(), ctx.fresh("i")
    call = EXOTIC_CALLS_S[ctx.choose("which", len(EXOTIC_CALLS_S))]
    _rec(ctx, call=call, a=a, b=b, c=c, e=e)
    eval("S." + call, {"S": S, "a": a, "b": b, "c": c, "e": e, "FS": FS})


OPS_S = {
    f.__name__[2:]: f
    for f in [
        s_add_simplex,
        s_add_simplex_none,
        s_exotic_args,
        s_add_simplices_from_1,
        s_add_simplices_from_2,
        s_add_simplices_from_3,
        s_add_simplices_from_4,
        s_add_simplices_from_5,
        s_add_weighted_simplices_from,
        s_add_simplices_from_maxorder,
        s_add_simplices_from_iter,
        s_remove_simplex_id,
        s_remove_simplex_ids_from,
        s_remove_node,
        s_remove_nodes_from,
        s_add_node,
        s_close,
        s_cleanup,
        s_dep_add_edge,
        s_dep_add_edges_from,
        s_dep_remove_edge,
        s_dep_remove_edges_from,
        s_add_node_to_edge,
        s_clear,
        s_convert_labels,
    ]
}
HEAVY_S = {
    "add_simplices_from_iter",
    "add_simplices_from_maxorder",
    "add_simplices_from_1",
    "add_simplices_from_2",
    "add_simplices_from_3",
    "add_simplices_from_4",
    "add_simplices_from_5",
    "add_weighted_simplices_from",
    "dep_add_edges_from",
}
