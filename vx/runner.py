"""Runs the units of one property on a process pool, replays every solver model
against the unmodified library, classifies confirmed counterexamples against
known_findings.json, writes evidence and replay files."""
import hashlib
import json
import multiprocessing as mp
import os
import subprocess
import sys
import time
import traceback

from . import stubs, symx

ROOT = os.path.dirname(os.path.dirname(os.path.abspath(__file__)))
REPO = os.environ.get("VX_REPO", "/repo")
HARNESSES = {}


def harness(name, raises_are_violations=False):
    """Register a harness.  With raises_are_violations, an ordinary exception that
    escapes the harness (i.e. the library raised on an input the harness built as
    valid) is reported as a violation of the property instead of a harness crash;
    it is replayed concretely like every other violation."""

    def deco(f):
        if raises_are_violations:
            import functools

            @functools.wraps(f)
            def g(ctx, p):
                try:
                    return f(ctx, p)
                except Exception as ex:
                    ctx.require(False, f"the library raised {type(ex).__name__} on a valid input")

            HARNESSES[name] = g
            return g
        HARNESSES[name] = f
        return f

    return deco


def _json_default(o):
    try:
        from .nets import describe

        return describe(o)
    except Exception:
        return repr(o)


def _profile_names(fn):
    """Run fn once recording which xgi functions are entered."""
    seen = set()
    prefix = os.path.join(REPO, "xgi") + os.sep

    def prof(frame, event, arg):
        if event == "call":
            co = frame.f_code
            if co.co_filename.startswith(prefix):
                seen.add(f"{co.co_filename[len(prefix):-3].replace(os.sep, '.')}.{co.co_qualname}")

    sys.setprofile(prof)
    try:
        fn()
    finally:
        sys.setprofile(None)
    return seen


def replay_record(rec):
    """Concrete replay of one record against the unmodified library (stubs
    removed).  Returns (reproduced, info, clauses)."""
    h = HARNESSES[rec["harness"]]
    with stubs.uninstalled():
        ctx, status = symx.run_concrete(lambda c: h(c, rec["params"]), rec["model"])
    clauses = [v.clause for v in ctx.violations]
    return (rec["clause"] in clauses), ctx.info, clauses


def run_unit(task):
    hname, params, caps = task
    h = HARNESSES[hname]
    res = {
        "harness": hname,
        "params": params,
        "paths": 0,
        "queries": 0,
        "solver_s": 0.0,
        "wall_s": 0.0,
        "aborted": 0,
        "concretizations": 0,
        "violating_paths": 0,
        "confirmed": [],
        "unconfirmed": [],
        "inconclusive": [],
        "unsupported": [],
        "capped": False,
        "error": None,
        "functions": [],
        "stub_hits": {},
        "sample": None,
        "outcomes": {},
        "passing_replayed": 0,
    }
    first = {"done": False, "fns": set()}
    sample_models = []

    def run(ctx):
        if not first["done"]:
            first["done"] = True
            first["fns"] = _profile_names(lambda: _guard(h, ctx, params))
            if first.get("exc") is not None:
                raise first["exc"]
        else:
            h(ctx, params)

    def _guard(h, ctx, params):
        try:
            h(ctx, params)
        except BaseException as e:  # re-raised outside the profiler
            first["exc"] = e

    def on_path(ctx):
        oc = ctx.info.get("outcome")
        if oc is not None:
            res["outcomes"][oc] = res["outcomes"].get(oc, 0) + 1
        if res["sample"] is None and ctx.info:
            res["sample"] = {"params": params, "info": _jsonable(ctx.info), "decisions": len(ctx.trace)}
        if len(sample_models) < 1 and not ctx.violations:
            try:
                if ctx.solver.check() == symx.z3.sat:
                    sample_models.append(ctx.model_dict())
            except Exception:
                pass

    try:
        st, viol = symx.explore(run, max_paths=caps["paths"], max_wall=caps["wall"], on_path=on_path, path_timeout=caps.get("path_timeout", 120))
    except symx.SymxEngineError as e:
        res["error"] = f"engine: {e}"
        return res
    except BaseException as e:
        res["error"] = "harness crashed: " + "".join(traceback.format_exception_only(type(e), e)).strip()
        res["trace"] = traceback.format_exc()[-2000:]
        return res
    res.update(
        paths=st.paths,
        queries=st.queries,
        solver_s=st.solver_s,
        wall_s=st.wall_s,
        aborted=st.aborted,
        concretizations=st.concretizations,
        capped=st.capped,
        inconclusive=st.inconclusive[:5],
        unsupported=st.unsupported[:5],
        n_inconclusive=len(st.inconclusive),
        n_unsupported=len(st.unsupported),
        stub_hits=st.stub_hits,
        functions=sorted(first["fns"]),
    )
    res["violating_paths"] = len(viol)
    # replay: every distinct (clause, model) up to a cap per clause
    per_clause = {}
    seen = set()
    for v, info in viol:
        key = (v.clause, json.dumps(v.model, sort_keys=True))
        if key in seen:
            continue
        seen.add(key)
        n = per_clause.get(v.clause, 0)
        if n >= caps.get("replays", 40) or sum(per_clause.values()) >= caps.get("replays_total", 120):
            continue
        per_clause[v.clause] = n + 1
        rec = {"harness": hname, "params": params, "clause": v.clause, "model": v.model}
        try:
            ok, cinfo, clauses = replay_record(rec)
            for alt in getattr(v, "alternatives", []):
                if ok:
                    break
                rec = {"harness": hname, "params": params, "clause": v.clause, "model": alt}
                ok, cinfo, clauses = replay_record(rec)
        except BaseException as e:
            res["unconfirmed"].append({"clause": v.clause, "model": v.model, "why": f"replay crashed: {e!r}"})
            continue
        if ok:
            rec["info"] = _jsonable(cinfo)
            rec["detail"] = _jsonable(v.detail)
            rec["sym_info"] = _jsonable(info)
            res["confirmed"].append(rec)
        else:
            res["unconfirmed"].append({"clause": v.clause, "model": v.model, "why": f"replay saw {clauses}"})
    # a passing path is replayed too, so the harness is known to run on the real library
    for m in sample_models:
        try:
            with stubs.uninstalled():
                cctx, status = symx.run_concrete(lambda c: h(c, params), m)
            if not cctx.violations:
                res["passing_replayed"] += 1
        except BaseException as e:
            res["unconfirmed"].append({"clause": "passing-path replay", "model": m, "why": repr(e)})
    return res


def _jsonable(x):
    from .nets import describe

    return json.loads(json.dumps(describe(x), default=_json_default))


# ---------------------------------------------------------------------------
# known findings
# ---------------------------------------------------------------------------
def load_known():
    p = os.path.join(ROOT, "known_findings.json")
    if not os.path.exists(p):
        return []
    return json.load(open(p)).get("findings", [])


def match_known(pid, rec, known):
    for k in known:
        if k.get("status", "open") != "open" or k["property"] != pid:
            continue
        if "harness" in k and k["harness"] != rec["harness"]:
            continue
        if "clause" in k and k["clause"] != rec["clause"]:
            continue
        env = {
            "params": rec["params"],
            "op": rec["params"].get("op"),
            "args": (rec.get("info") or {}).get("args") or {},
            "info": rec.get("info") or {},
            "model": rec["model"],
            "clause": rec["clause"],
        }
        try:
            if eval(k.get("when", "True"), {"__builtins__": {"len": len, "any": any, "all": all, "isinstance": isinstance, "str": str, "int": int, "list": list, "set": set, "sorted": sorted, "min": min, "max": max}}, env):
                return k
        except Exception:
            continue
    return None


# ---------------------------------------------------------------------------
# driver
# ---------------------------------------------------------------------------
def run_property(pid, spec, tier, seed, jobs=None):
    """spec: dict(units=[(harness, params)], caps, level, assumptions, bounds, rule, states_key)"""
    t0 = time.time()
    stubs.install_core()
    units = spec["units"]
    caps = spec["caps"]
    jobs = jobs or int(os.environ.get("VX_JOBS", "16"))
    tasks = [(h, p, caps) for h, p in units]
    results = []
    if jobs == 1 or len(tasks) <= 1:
        for t in tasks:
            results.append(run_unit(t))
    else:
        ctxmp = mp.get_context("fork")
        with ctxmp.Pool(jobs) as pool:
            for r in pool.imap_unordered(run_unit, tasks, chunksize=1):
                results.append(r)
    extra = spec.get("post")
    post = extra(results) if extra else {}
    return finish(pid, spec, tier, seed, results, time.time() - t0, post)


def finish(pid, spec, tier, seed, results, wall, post):
    known = load_known()
    errors = [r for r in results if r["error"]]
    inconc = [r for r in results if r["capped"] or r.get("n_inconclusive") or r["unconfirmed"]]
    unsupported = sum(r.get("n_unsupported", 0) for r in results)
    allowed_unsupported = spec.get("allow_unsupported", False)
    confirmed = [c for r in results for c in r["confirmed"]]
    known_hits = {}
    new = []
    for rec in confirmed:
        k = match_known(pid, rec, known)
        if k is not None:
            known_hits.setdefault(k["id"], [k, 0])[1] += 1
        else:
            new.append(rec)
    for extra_v in post.get("violations", []):
        k = match_known(pid, extra_v, known)
        if k is not None:
            known_hits.setdefault(k["id"], [k, 0])[1] += 1
        else:
            new.append(extra_v)
    # write replay files for new violations (distinct by harness/op/clause)
    printed = []
    os.makedirs(os.path.join(ROOT, "replays"), exist_ok=True)
    seen = set()
    for rec in new:
        key = (rec["harness"], json.dumps(rec["params"], sort_keys=True, default=str), rec["clause"])
        if key in seen:
            continue
        seen.add(key)
        if len(printed) >= 12:
            continue
        rec = dict(rec, property=pid)
        blob = json.dumps(rec, sort_keys=True, default=_json_default)
        path = os.path.join(ROOT, "replays", f"{pid}-{hashlib.sha1(blob.encode()).hexdigest()[:12]}.json")
        with open(path, "w") as f:
            f.write(json.dumps(rec, indent=1, sort_keys=True, default=_json_default))
        printed.append((path, rec))
    # confirm in a fresh, stub-free interpreter before printing
    violations = []
    harness_errors = []
    for n_sub, (path, rec) in enumerate(printed):
        if rec.get("no_subprocess") or n_sub >= 3:  # the rest were replayed in-process
            violations.append((path, rec))
            continue
        p = subprocess.run([sys.executable, "-m", "vx.cli", "--replay", path], cwd=ROOT, capture_output=True, text=True)
        if p.returncode == 1:
            violations.append((path, rec))
        else:
            harness_errors.append(f"counterexample {path} did not reproduce in a fresh interpreter: rc={p.returncode} {p.stdout[-300:]} {p.stderr[-300:]}")

    paths = sum(r["paths"] for r in results)
    queries = sum(r["queries"] for r in results)
    solver_s = sum(r["solver_s"] for r in results)
    fns = sorted({f for r in results for f in r["functions"]})
    stub_hits = {}
    outcomes = {}
    for r in results:
        for k, v in r["stub_hits"].items():
            stub_hits[k] = stub_hits.get(k, 0) + v
        for k, v in r["outcomes"].items():
            outcomes[k] = outcomes.get(k, 0) + v
    # vacuity guards: units whose every path was cut by an assumption, and ops that never returned normally
    vacuous = [f"{r['harness']}:{json.dumps(r['params'], default=str)[:120]}" for r in results if r["paths"] and r["paths"] == r["aborted"]]
    per_op = {}
    for r in results:
        key = f"{r['harness']}:{r['params'].get('op') or r['params'].get('kind') or r['params'].get('how') or r['params'].get('what') or ''}"
        d = per_op.setdefault(key, {})
        for k, v in r["outcomes"].items():
            d[k[:40] if not k.startswith("config:") else "config"] = d.get(k[:40] if not k.startswith("config:") else "config", 0) + v
    never_returned = sorted(k for k, d in per_op.items() if d and not any(o.startswith(("returned", "ok", "config")) for o in d))
    samples = [r["sample"] for r in results if r["sample"]][:4]
    for path, rec in violations[:2]:
        samples.append({"violation": rec["clause"], "params": rec["params"], "model": rec["model"], "info": rec.get("info")})
    states = len({json.dumps(p.get(spec.get("states_key", "shape")), default=str) + str(p.get("cls", "")) for _, p in spec["units"]})
    cov = {
        "states": max(states, 1) if results else 0,
        "transitions": paths,
        "traces_validated_against_impl": len(confirmed) + sum(r["passing_replayed"] for r in results),
        "samples": samples or [{"note": "no path produced a sample"}],
        "units": len(results),
        "paths_aborted_by_assumption": sum(r["aborted"] for r in results),
        "solver_queries": queries,
        "solver_seconds": round(solver_s, 2),
        "solver": f"z3 {symx.z3.get_version_string()}",
        "functions_encoded": fns,
        "stubs_hit": stub_hits,
        "outcomes": outcomes,
        "vacuous_units_all_paths_cut_by_assumptions": len(vacuous),
        "vacuous_units_examples": vacuous[:5],
        "ops_that_never_returned_normally": never_returned[:40],
        "index_concretizations": sum(r["concretizations"] for r in results),
        "violating_paths": sum(r["violating_paths"] for r in results),
        "confirmed_counterexamples": len(confirmed),
        "known_findings_hit": {k: v[1] for k, v in known_hits.items()},
        "new_violations": len(violations),
        "inconclusive_units": len(inconc),
        "engine_errors": len(errors),
        "unsupported_paths": unsupported,
        "bounds": spec.get("bounds", {}),
        "outside_claim": spec.get("outside", []),
        "exhaustive": not inconc and not errors,
        "explanation": spec.get("explanation", ""),
    }
    cov.update(post.get("coverage", {}))
    ev = {
        "property_id": pid,
        "tier": tier,
        "seed": seed,
        "level": spec.get("level", "model_checking"),
        "coverage": cov,
        "assumptions": spec.get("assumptions", []),
        "wall_s": round(wall, 2),
        "violations": len(violations),
    }
    os.makedirs(os.path.join(ROOT, "evidence"), exist_ok=True)
    with open(os.path.join(ROOT, "evidence", f"{pid}.json"), "w") as f:
        json.dump(ev, f, indent=1, default=_json_default)

    for kid, (k, n) in sorted(known_hits.items()):
        print(f"KNOWN-FINDING: property={pid} {k['what']} [{kid}; {n} confirmed counterexamples]")
    for path, rec in violations:
        print(f"VIOLATION property={pid} replay={path}")
        print(f"  clause: {rec['clause']}; params: {json.dumps(rec['params'], default=str)[:300]}; args: {json.dumps((rec.get('info') or {}).get('args'), default=str)[:300]}")
    if os.environ.get("VX_DEBUG"):
        byop = {}
        for r in results:
            k = (r["harness"], r["params"].get("op") or r["params"].get("kind"))
            b = byop.setdefault(k, [0, 0.0, 0])
            b[0] += r["paths"]
            b[1] += r["wall_s"]
            b[2] += r["violating_paths"]
        for k, b in sorted(byop.items(), key=lambda kv: -kv[1][1])[:40]:
            print(f"  DEBUG {k}: paths={b[0]} cpu={b[1]:.1f}s violating={b[2]}")
    rc = 0
    if violations:
        rc = 1
    else:
        problems = []
        for r in errors:
            problems.append(f"unit {r['harness']} {json.dumps(r['params'], default=str)[:200]}: {r['error']}")
        for r in inconc:
            why = []
            if r["capped"]:
                why.append("cap hit")
            if r.get("n_inconclusive"):
                why.append(f"{r['n_inconclusive']} inconclusive paths: {r['inconclusive'][:1]}")
            if r["unconfirmed"]:
                why.append(f"{len(r['unconfirmed'])} counterexamples did not replay: {json.dumps(r['unconfirmed'][0], default=str)[:400]}")
            problems.append(f"unit {r['harness']} {json.dumps(r['params'], default=str)[:200]}: {'; '.join(why)}")
        if unsupported and not allowed_unsupported:
            ex = next((r for r in results if r.get("n_unsupported")), None)
            problems.append(f"{unsupported} paths hit an unmodelled operation, e.g. {ex['harness']} {json.dumps(ex['params'], default=str)[:200]}: {ex['unsupported'][:1]}")
        problems += harness_errors
        problems += post.get("problems", [])
        if problems:
            rc = 2
            for p in problems[:15]:
                print("INCONCLUSIVE:", p)
    print(
        f"{pid} [{tier}] units={len(results)} paths={paths} queries={queries} solver={solver_s:.1f}s "
        f"wall={wall:.1f}s confirmed={len(confirmed)} known={sum(v[1] for v in known_hits.values())} new={len(violations)} rc={rc}"
    )
    return rc
