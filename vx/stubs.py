"""Environment stubs, injected as module globals into xgi modules in the checker
process only (no file under /repo is edited).  Each stub keeps the documented
contract of what it replaces; every hit is counted in the evidence."""
import builtins
import importlib
import itertools

import z3

from . import symx
from .symx import SymBool, SymInt, SymReal, SymxUnsupported


# ---------------------------------------------------------------------------
# itertools.count
# ---------------------------------------------------------------------------
class scount:
    """itertools.count(start): next() returns the current value, then adds one.
    The value may be symbolic; yielded values are label-kind."""

    def __init__(self, start=0, step=1):
        if step != 1:
            raise SymxUnsupported("count step")
        self.v = start

    def __next__(self):
        v = self.v
        self.v = v + 1
        c = symx.CTX
        if c is not None:
            c.hit("count")
        if isinstance(v, SymInt):
            if v.kind != "L":
                return SymInt(v.e, "L", None, v.cval)
            return v
        if symx.CTX is None:
            return v
        return SymInt.const(v, "L")

    def __iter__(self):
        return self

    def __copy__(self):
        return scount(self.v)

    def __deepcopy__(self, memo):
        return scount(self.v)

    def __reduce__(self):
        return (scount, (self.v,))

    def __repr__(self):
        return f"scount({self.v})"


def counter_value(c):
    """Peek the next value of a count()/scount without consuming it."""
    if isinstance(c, scount):
        return c.v
    import copy

    return next(copy.copy(c))


# ---------------------------------------------------------------------------
# float / int shadows for xgi.utils.utilities
# ---------------------------------------------------------------------------
class _FloatView:
    def __init__(self, s):
        self.s = s

    def is_integer(self):
        return True


class _Meta(type):
    def __instancecheck__(cls, o):
        return isinstance(o, cls._real)

    def __subclasscheck__(cls, o):
        return issubclass(o, cls._real)


class sfloat(metaclass=_Meta):
    _real = builtins.float

    def __new__(cls, x=0.0):
        if isinstance(x, SymInt):
            c = symx.CTX
            if c is not None:
                c.hit("float")
            if x.cval is not None:
                return builtins.float(x.cval)
            return _FloatView(x)
        return builtins.float(x)


class sint(metaclass=_Meta):
    _real = builtins.int

    def __new__(cls, x=0, *a):
        if isinstance(x, SymInt):
            c = symx.CTX
            if c is not None:
                c.hit("int")
            return x
        if isinstance(x, _FloatView):
            return x.s
        if isinstance(x, symx.SymStr):
            return x.sym
        return builtins.int(x, *a)


# ---------------------------------------------------------------------------
# installation
# ---------------------------------------------------------------------------
_COUNT_MODULES = [
    "xgi.core.hypergraph",
    "xgi.core.dihypergraph",
    "xgi.core.simplicialcomplex",
    "xgi.utils.utilities",
]
_installed = []
_MISSING = object()


def _set(modname, name, value):
    mod = importlib.import_module(modname)
    old = mod.__dict__.get(name, _MISSING)
    _installed.append((mod, name, old))
    setattr(mod, name, value)


def install_core():
    """count -> scount in the class modules; float/int shadows in utilities."""
    if _installed:
        return
    for m in _COUNT_MODULES:
        mod = importlib.import_module(m)
        if "count" in mod.__dict__:
            _set(m, "count", scount)
    _set("xgi.utils.utilities", "float", sfloat)
    _set("xgi.utils.utilities", "int", sint)


def install_extra(modname, name, value):
    _set(modname, name, value)


def uninstall():
    while _installed:
        mod, name, old = _installed.pop()
        if old is _MISSING:
            try:
                delattr(mod, name)
            except AttributeError:
                pass
        else:
            setattr(mod, name, old)


class uninstalled:
    """Context manager: run a block against the unmodified library."""

    def __enter__(self):
        self.saved = list(_installed)
        self.cur = [(mod, name, mod.__dict__.get(name, _MISSING)) for mod, name, _ in _installed]
        for mod, name, old in reversed(_installed):
            if old is _MISSING:
                mod.__dict__.pop(name, None)
            else:
                setattr(mod, name, old)
        return self

    def __exit__(self, *a):
        for mod, name, cur in self.cur:
            if cur is not _MISSING:
                setattr(mod, name, cur)
        return False


# ---------------------------------------------------------------------------
# random number generators as nondeterministic stubs
# ---------------------------------------------------------------------------
class SymRandom:
    """Stands in for the `random` module (and for `np.random` where xgi uses the
    same few calls).  Every draw is an arbitrary value of its documented range,
    drawn through ctx so that it is a solver variable during exploration and a
    scripted value during concrete replay.  seed() switches the stream tag."""

    def __init__(self, ctx, name="rnd"):
        self.ctx = ctx
        self.name = name
        self.k = 0
        self.stream = "ambient"
        self.draws = []  # (stream, kind)
        self.seeds = []

    def _n(self, kind):
        self.k += 1
        self.draws.append((self.stream, kind))
        self.ctx.hit(f"{self.name}.{kind}")
        return f"{self.name}{self.k}"

    def seed(self, s=None):
        self.seeds.append(s)
        self.stream = ("seeded", s)

    def random(self):
        return self.ctx.real(self._n("random"), 0, 1, hi_strict=True)

    def sample(self, population, k):
        pop = list(population)
        if k > len(pop) or k < 0:
            raise ValueError("Sample larger than population or is negative")
        out = []
        for _ in range(k):
            i = self.ctx.choose(self._n("sample"), len(pop))
            out.append(pop.pop(i))
        return out

    def choice(self, seq):
        seq = list(seq)
        if not seq:
            raise IndexError("Cannot choose from an empty sequence")
        return seq[self.ctx.choose(self._n("choice"), len(seq))]

    def shuffle(self, x):
        y = self.sample(list(x), len(x))
        x[:] = y

    def randrange(self, a, b=None):
        if b is None:
            a, b = 0, a
        return a + self.ctx.choose(self._n("randrange"), b - a)

    def randint(self, a, b):
        return self.randrange(a, b + 1)


class rng:
    """with rng(ctx, 'xgi.core.hypergraph') as r: ... installs a SymRandom as the
    module-global `random` of the named xgi modules for the duration."""

    def __init__(self, ctx, *modnames, attr="random"):
        self.ctx = ctx
        self.modnames = modnames
        self.attr = attr

    def __enter__(self):
        self.r = SymRandom(self.ctx)
        self.saved = []
        for m in self.modnames:
            mod = importlib.import_module(m)
            self.saved.append((mod, mod.__dict__.get(self.attr, _MISSING)))
            setattr(mod, self.attr, self.r)
        return self.r

    def __exit__(self, *a):
        for mod, old in self.saved:
            if old is _MISSING:
                mod.__dict__.pop(self.attr, None)
            else:
                setattr(mod, self.attr, old)
        return False


# ---------------------------------------------------------------------------
# numpy stand-in for xgi.linalg.hodge_matrix (entries may be symbolic integers)
# ---------------------------------------------------------------------------
class Mat:
    """Dense matrix of python/symbolic integers supporting exactly what
    boundary_matrix / hodge_laplacian use: zeros, item assignment, transpose, @, +."""

    def __init__(self, shape, data=None):
        self.shape = tuple(shape)
        self.data = data if data is not None else {}

    def __setitem__(self, ij, v):
        i, j = ij
        if not (0 <= i < self.shape[0] and 0 <= j < self.shape[1]):
            raise IndexError("index out of bounds")
        self.data[(i, j)] = v

    def __getitem__(self, ij):
        i, j = ij
        if not (0 <= i < self.shape[0] and 0 <= j < self.shape[1]):
            raise IndexError("index out of bounds")
        return self.data.get((i, j), 0)

    @property
    def T(self):
        return Mat((self.shape[1], self.shape[0]), {(j, i): v for (i, j), v in self.data.items()})

    def __matmul__(self, o):
        if self.shape[1] != o.shape[0]:
            raise ValueError("matmul: dimension mismatch")
        out = Mat((self.shape[0], o.shape[1]))
        rows = {}
        for (i, k), v in self.data.items():
            rows.setdefault(k, []).append((i, v))
        for (k, j), w in o.data.items():
            for i, v in rows.get(k, ()):
                cur = out.data.get((i, j), 0)
                out.data[(i, j)] = cur + v * w
        return out

    def __add__(self, o):
        if self.shape != o.shape:
            raise ValueError("add: shape mismatch")
        out = Mat(self.shape, dict(self.data))
        for ij, v in o.data.items():
            out.data[ij] = out.data.get(ij, 0) + v
        return out


class NPStub:
    def __init__(self, ctx=None):
        self.ctx = ctx

    def zeros(self, shape):
        if self.ctx is not None:
            self.ctx.hit("np.zeros")
        return Mat(shape)

    def transpose(self, m):
        return m.T


# ---------------------------------------------------------------------------
# generators: geometric(), np.random
# ---------------------------------------------------------------------------
class SymGeometric:
    """xgi.utils.geometric(p): number of trials to the first success - any
    integer >= 1 for 0 < p < 1; 1 for p == 1; inf for p == 0 (documented)."""

    def __init__(self, ctx, rnd=None):
        self.ctx = ctx
        self.k = 0
        self.rnd = rnd

    def __call__(self, p):
        import numpy as np

        self.ctx.hit("geometric")
        if self.rnd is not None:
            self.rnd.draws.append((self.rnd.stream, "geometric"))
        if p == 1:
            return 1
        if p == 0:
            return np.inf
        self.k += 1
        return self.ctx.int(f"geo{self.k}", 1, None)


class SymArray(list):
    """What np.random.random(size=n) returns: elementwise comparison only."""

    def __le__(self, o):
        return [x <= o for x in self]

    def __lt__(self, o):
        return [x < o for x in self]

    def __ge__(self, o):
        return [x >= o for x in self]

    def __gt__(self, o):
        return [x > o for x in self]


class NPRandomStub(SymRandom):
    def __init__(self, ctx, name="nprnd"):
        super().__init__(ctx, name)

    def random(self, size=None):
        if size is None:
            return SymRandom.random(self)
        return SymArray(SymRandom.random(self) for _ in range(size))

    def choice(self, a, size=None, replace=True):
        import numpy as np

        pop = list(a)
        if size is None:
            return pop[self.ctx.choose(self._n("choice"), len(pop))]
        out = []
        for _ in range(size):
            i = self.ctx.choose(self._n("choice"), len(pop))
            out.append(pop[i] if replace else pop.pop(i))
        return np.array(out, dtype=object) if out and not isinstance(out[0], int) else np.array(out)

    def default_rng(self, seed=None):
        self.seed(seed)
        return self


class NPProxy:
    """numpy with its `random` submodule replaced."""

    def __init__(self, random_stub):
        import numpy

        self.__dict__["_np"] = numpy
        self.__dict__["random"] = random_stub

    def __getattr__(self, name):
        return getattr(self._np, name)


class patched:
    """with patched({(module, name): value, ...}): module globals replaced for the block."""

    def __init__(self, mapping):
        self.mapping = mapping

    def __enter__(self):
        self.saved = []
        for (m, name), v in self.mapping.items():
            mod = importlib.import_module(m)
            self.saved.append((mod, name, mod.__dict__.get(name, _MISSING)))
            setattr(mod, name, v)
        return self

    def __exit__(self, *a):
        for mod, name, old in self.saved:
            if old is _MISSING:
                mod.__dict__.pop(name, None)
            else:
                setattr(mod, name, old)
        return False


def size_constants(ctx, modules, floor=1000):
    """Module-level integer constants >= floor in the given modules (size thresholds
    that switch between two implementations, retry/iteration limits) become solver
    integers in [0, value], so that code guarded by `n > THRESHOLD` is reachable on
    the small inputs the harness can explore.  Scanned from the tree under test on
    every run; the unchanged tree has none (then the mapping is empty)."""
    import importlib as il

    mapping = {}
    for m in modules:
        mod = il.import_module(m)
        for name, val in sorted(mod.__dict__.items()):
            if type(val) is int and val >= floor and not name.startswith("__"):
                mapping[(m, name)] = ctx.int("K_" + m.rsplit(".", 1)[-1] + "_" + name, 0, val, kind="N")
    return mapping


GEN_MODULES = ["xgi.generators.random", "xgi.generators.uniform", "xgi.generators.simplicial_complexes", "xgi.generators.randomizing"]


def rng_env(ctx):
    """Patch every RNG entry point the generators use; returns (ctx manager, py stub, np stub)."""
    import importlib as il

    r = SymRandom(ctx)
    nr = NPRandomStub(ctx)
    geo = SymGeometric(ctx, r)
    mapping = {}
    for m in GEN_MODULES:
        mod = il.import_module(m)
        if "random" in mod.__dict__:
            mapping[(m, "random")] = r
        if "geometric" in mod.__dict__:
            mapping[(m, "geometric")] = geo
        if "np" in mod.__dict__:
            mapping[(m, "np")] = NPProxy(nr)
    mapping[("xgi.generators.uniform", "int")] = sint
    mapping.update(size_constants(ctx, GEN_MODULES))
    return patched(mapping), r, nr


# ---------------------------------------------------------------------------
# C17: seeded streams.  A draw is the uninterpreted value R(stream, position):
# draws made after seed(s) inside the call under test share one namespace across
# calls (same seed => same variables); ambient draws get a namespace per call.
# ---------------------------------------------------------------------------
class StreamRandom:
    def __init__(self, ctx, family):
        self.ctx = ctx
        self.family = family
        self.call = 0
        self.seeded = False
        self.pos = 0
        self.ambient_draws = 0
        self.seeds = []

    def begin_call(self, k):
        self.call = k
        self.seeded = False
        self.pos = 0

    def seed(self, s=None):
        self.seeds.append(s)
        self.seeded = s is not None
        self.pos = 0

    def _n(self, kind):
        self.pos += 1
        self.ctx.hit(f"{self.family}.{kind}")
        if self.seeded:
            return f"{self.family}.S.{self.pos}.{kind}"
        self.ambient_draws += 1
        return f"{self.family}.A{self.call}.{self.pos}.{kind}"

    # the same surface as SymRandom / NPRandomStub
    def random(self, size=None):
        if size is None:
            return self.ctx.real(self._n("random"), 0, 1, hi_strict=True)
        return SymArray(self.ctx.real(self._n("random"), 0, 1, hi_strict=True) for _ in range(size))

    def rand(self, *shape):
        import numpy as np

        n = 1
        for s in shape:
            n *= s
        # positions are floats in the real function; a coarse grid keeps them concrete
        vals = [self.ctx.choose(self._n("rand"), 4) / 4.0 for _ in range(n)]
        return np.array(vals, dtype=float).reshape(shape)

    def sample(self, population, k):
        pop = list(population)
        if k > len(pop) or k < 0:
            raise ValueError("Sample larger than population or is negative")
        out = []
        for _ in range(k):
            out.append(pop.pop(self.ctx.choose(self._n(f"sample{len(pop)}"), len(pop))))
        return out

    def choice(self, a, size=None, replace=True):
        import numpy as np

        pop = list(a)
        if size is None:
            return pop[self.ctx.choose(self._n(f"choice{len(pop)}"), len(pop))]
        out = []
        for _ in range(size):
            i = self.ctx.choose(self._n(f"choice{len(pop)}"), len(pop))
            out.append(pop[i] if replace else pop.pop(i))
        return np.array(out)

    def shuffle(self, x):
        x[:] = self.sample(list(x), len(x))

    def geometric(self, p):
        import numpy as np

        if p == 1:
            return 1
        if p == 0:
            return np.inf
        return self.ctx.int(self._n("geometric"), 1, 6)
